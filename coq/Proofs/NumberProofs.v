(* NumberProofs.v — C03: the model of parseNumber agrees with the
   specification (RFC 8259 lexer + documented type cascade + correctly
   rounded float) on every input that starts like a number. *)
From Coq Require Import ZArith NArith List Bool Lia String.
From Coq.Strings Require Import Byte.
From Coq Require Import Floats.SpecFloat.
From SJ Require Import Model.Base Model.RefTables Spec.Json Model.Number.
From SJ Require Import Proofs.NumLex Proofs.NumInt.
Import ListNotations.
Local Open Scope N_scope.

(* encoding of a specification number as (tag word, value word) *)
Definition enc_num (n : num) : N * N :=
  match n with
  | NInt z => (mk_word TagInteger 0, u64_of_Z z)
  | NUint u => (mk_word TagUint 0, u)
  | NFloat bits flags => (mk_word TagFloat flags, bits)
  end.

(* ------------------------------------------------------------------ *)
(* parse_number_model, cut into its phases (definitional)              *)

Definition float_path (buf : bytes) (pos : nat) (lex : bytes) (flag : N) : option (N * N) :=
  let b0 := nth_b buf 0 in
  let off := if b0 =? cMINUS then 1%nat else 0%nat in
  if (S off <? pos)%nat && (nth_b buf off =? c0)
     && negb (has (isNumberRune_ref (nth_b buf (S off))) fFLOATONLY) then None
  else
    match go_parse_float lex with
    | Some bits => Some (mk_word TagFloat flag, bits)
    | None => None
    end.

Definition int_try (buf : bytes) (pos : nat) (lex : bytes) (found : N)
  : option (option (N * N)) * N :=
  let b0 := nth_b buf 0 in
  let b1 := nth_b buf 1 in
  let floatonly := has found fFLOATONLY in
  let minus := has found fMINUS in
  if negb floatonly && (N.of_nat pos <=? maxIntLen) then
    if (negb minus && (1 <? pos)%nat && (b0 =? c0)) || (minus && (2 <? pos)%nat && (b1 =? c0))
    then (Some None, 0)
    else
      match go_parse_int lex with
      | CVal z => (Some (Some (mk_word TagInteger 0, u64_of_Z z)), 0)
      | ri =>
        let fl1 := match ri with CRange => FloatOverflowedInteger | _ => 0 end in
        if negb minus then
          match go_parse_uint lex with
          | CVal u => (Some (Some (mk_word TagUint 0, u)), 0)
          | CRange => (None, FloatOverflowedInteger)
          | CSyntax => (None, fl1)
          end
        else (None, fl1)
      end
  else if negb floatonly then (None, FloatOverflowedInteger)
  else (None, 0).

Definition after_scan (buf : bytes) (pos : nat) (found : N) : option (N * N) :=
  if (pos =? 0)%nat then None
  else
    let lex := firstn pos buf in
    match int_try buf pos lex found with
    | (Some r, _) => r
    | (None, flag) => float_path buf pos lex flag
    end.

Lemma parse_number_model_unfold : forall buf,
  parse_number_model buf =
  match num_scan buf 0 0 0 with
  | None => None
  | Some (pos, found) => after_scan buf pos found
  end.
Proof. intros buf. reflexivity. Qed.

(* ------------------------------------------------------------------ *)
(* the scanning loop                                                   *)

Definition lor_fold (lex : bytes) (f : N) : N := fold_left (fun a b => N.lor a (nr b)) lex f.

(* every must-be-followed-by-a-digit byte of the lexeme is *)
Fixpoint must_ok (s : bytes) : bool :=
  match s with
  | [] => true
  | v :: rest =>
    (if has (nr v) fMUSTDIGIT
     then match rest with [] => false | n :: _ => has (nr n) fDIGIT end
     else true) && must_ok rest
  end.

Lemma partb_nr : forall v, partb v = true -> (nr v =? 0) = false /\ (nr v =? fEOV) = false.
Proof.
  intros v H. unfold partb in H. apply andb_true_iff in H. destruct H as [H1 H2].
  apply negb_true_iff in H1, H2. auto.
Qed.

Lemma rest_ok_scan_stop : forall rest i f, rest_ok rest = true ->
  num_scan rest i i f = Some (i, f).
Proof.
  intros [|b r] i f H; [reflexivity|]. cbn in H. cbn [num_scan]. cbv zeta.
  destruct (eov_facts b H) as (_ & _ & _ & _ & _ & _ & Hn). rewrite Hn. reflexivity.
Qed.

Lemma rest_ok_not_digit_next : forall (rest : bytes), rest_ok rest = true ->
  match rest with [] => false | n :: _ => has (nr n) fDIGIT end = false.
Proof.
  intros [|b r] H; [reflexivity|]. cbn in H.
  destruct (eov_facts b H) as (_ & _ & _ & _ & _ & _ & Hn). rewrite Hn. reflexivity.
Qed.

Lemma num_scan_app : forall lex rest i f,
  forallb partb lex = true -> rest_ok rest = true ->
  num_scan (lex ++ rest) i i f =
  if must_ok lex then Some ((i + length lex)%nat, lor_fold lex f) else None.
Proof.
  induction lex as [|v lex IH]; intros rest i f Hp Hr.
  - cbn [app must_ok length lor_fold fold_left]. rewrite Nat.add_0_r.
    apply rest_ok_scan_stop; assumption.
  - cbn in Hp. apply andb_true_iff in Hp. destruct Hp as [Hv Hp].
    destruct (partb_nr v Hv) as [N0 N8].
    cbn [app num_scan]. cbv zeta. rewrite N0, N8.
    cbn [must_ok length lor_fold fold_left].
    assert (E : match lex ++ rest with [] => false | n :: _ => has (nr n) fDIGIT end
                = match lex with [] => false | n :: _ => has (nr n) fDIGIT end).
    { destruct lex; [|reflexivity]. cbn [app]. apply rest_ok_not_digit_next; assumption. }
    rewrite E.
    destruct (if has (nr v) fMUSTDIGIT
              then match lex with [] => false | n :: _ => has (nr n) fDIGIT end
              else true) eqn:Em; cbn [negb andb].
    + rewrite IH by assumption. fold (lor_fold lex (N.lor f (nr v))).
      replace (S i + length lex)%nat with (i + S (length lex))%nat by lia. reflexivity.
    + reflexivity.
Qed.

Lemma num_scan_inv : forall buf i f pos found,
  num_scan buf i i f = Some (pos, found) ->
  exists lex rest, buf = lex ++ rest /\ forallb partb lex = true /\ rest_ok rest = true /\
                   must_ok lex = true /\ pos = (i + length lex)%nat /\ found = lor_fold lex f.
Proof.
  induction buf as [|v r IH]; intros i f pos found H.
  - cbn in H. inversion H; subst. exists [], []. cbn. rewrite Nat.add_0_r. repeat split.
  - cbn [num_scan] in H. cbv zeta in H.
    destruct (nr v =? 0) eqn:N0; [discriminate H|].
    destruct (nr v =? fEOV) eqn:N8.
    + inversion H; subst. exists [], (v :: r). cbn [app length forallb must_ok lor_fold fold_left rest_ok].
      rewrite Nat.add_0_r, eov_nr. repeat split. exact N8.
    + destruct (if has (nr v) fMUSTDIGIT
                then match r with [] => false | n :: _ => has (nr n) fDIGIT end
                else true) eqn:Em; cbn [negb] in H; [|discriminate H].
      destruct (IH _ _ _ _ H) as (lex & rest & Hb & Hp & Hr & Hm & Hpos & Hf).
      exists (v :: lex), rest. subst r.
      cbn [app length forallb must_ok lor_fold fold_left].
      assert (E : match lex ++ rest with [] => false | n :: _ => has (nr n) fDIGIT end
                  = match lex with [] => false | n :: _ => has (nr n) fDIGIT end).
      { destruct lex; [|reflexivity]. cbn [app]. apply rest_ok_not_digit_next; assumption. }
      rewrite E in Em. rewrite Em, Hm, Hp. unfold partb. rewrite N0, N8.
      repeat split; auto. lia.
Qed.

Lemma has_lor : forall a b f, has (N.lor a b) f = has a f || has b f.
Proof.
  intros a b f. unfold has. rewrite N.land_lor_distr_l.
  destruct (N.eqb_spec (N.land a f) 0) as [Ea|Ea], (N.eqb_spec (N.land b f) 0) as [Eb|Eb];
    cbn [negb orb].
  - rewrite Ea, Eb. reflexivity.
  - apply negb_true_iff, N.eqb_neq. intro H. apply N.lor_eq_0_iff in H. tauto.
  - apply negb_true_iff, N.eqb_neq. intro H. apply N.lor_eq_0_iff in H. tauto.
  - apply negb_true_iff, N.eqb_neq. intro H. apply N.lor_eq_0_iff in H. tauto.
Qed.

Lemma has_lor_fold : forall lex a f,
  has (lor_fold lex a) f = has a f || existsb (fun b => has (nr b) f) lex.
Proof.
  induction lex as [|v lex IH]; intros a f; cbn [lor_fold fold_left existsb].
  - rewrite orb_false_r. reflexivity.
  - fold (lor_fold lex (N.lor a (nr v))). rewrite IH, has_lor, orb_assoc. reflexivity.
Qed.

Lemma existsb_digits : forall f ds, alld ds = true -> has 17 f = false ->
  existsb (fun b => has (nr b) f) ds = false.
Proof.
  induction ds as [|b r IH]; intros Ha Hf; [reflexivity|].
  cbn in Ha. apply andb_true_iff in Ha. destruct Ha as [Hb Hr].
  cbn [existsb]. destruct (dig_facts b Hb) as (Hn & _). rewrite Hn, Hf. cbn [orb]. auto.
Qed.

Lemma firstn_app_len : forall (A : Type) (l r : list A), firstn (length l) (l ++ r) = l.
Proof. induction l; intros; cbn; [reflexivity | f_equal; auto]. Qed.

(* ------------------------------------------------------------------ *)
(* scanning a well-formed literal                                      *)

Lemma must_ok_digits_app : forall ds t, alld ds = true -> must_ok (ds ++ t) = must_ok t.
Proof.
  induction ds as [|b r IH]; intros t Ha; [reflexivity|].
  cbn in Ha. apply andb_true_iff in Ha. destruct Ha as [Hb Hr].
  cbn [app must_ok]. destruct (dig_facts b Hb) as (Hn & _). rewrite Hn.
  change (has 17 fMUSTDIGIT) with false. cbn [andb]. auto.
Qed.

Lemma must_ok_digits : forall ds, alld ds = true -> must_ok ds = true.
Proof. intros ds H. rewrite <- (app_nil_r ds). rewrite must_ok_digits_app by assumption. reflexivity. Qed.

(* a must-digit byte (minus or dot) in front of a digit *)
Lemma must_ok_md : forall c h t, has (nr c) fMUSTDIGIT = true -> isdig h = true ->
  must_ok (c :: h :: t) = must_ok (h :: t).
Proof.
  intros c h t Hc Hh. cbn [must_ok]. rewrite Hc. destruct (dig_facts h Hh) as (Hn & _).
  rewrite Hn. reflexivity.
Qed.

Lemma must_ok_free : forall c t, has (nr c) fMUSTDIGIT = false -> must_ok (c :: t) = must_ok t.
Proof. intros c t Hc. cbn [must_ok]. rewrite Hc. reflexivity. Qed.

Lemma alld_cons : forall h t, alld (h :: t) = true -> isdig h = true /\ alld t = true.
Proof. intros h t H. cbn in H. apply andb_true_iff in H. exact H. Qed.

Lemma must_ok_exp : forall x, wf_exp x -> must_ok (exp_bytes x) = true.
Proof.
  intros [[[m sg] d]|] Hx; [|reflexivity]. destruct Hx as (Hm & Hsg & Ha & Hn).
  cbn [exp_bytes]. rewrite must_ok_free by (destruct Hm; subst m; reflexivity).
  destruct d as [|h d']; [congruence|]. destruct (alld_cons _ _ Ha) as [Hh Hd].
  destruct Hsg as [Hsg|[Hsg|Hsg]]; subst sg; cbn [app].
  - apply must_ok_digits; assumption.
  - rewrite must_ok_free by reflexivity. apply must_ok_digits; assumption.
  - rewrite must_ok_md by (reflexivity || assumption). apply must_ok_digits; assumption.
Qed.

Lemma must_ok_frac : forall f t, wf_frac f -> must_ok (frac_bytes f ++ t) = must_ok t.
Proof.
  intros [fp|] t Hf; [|reflexivity]. destruct Hf as [Ha Hn].
  destruct fp as [|h d']; [congruence|]. destruct (alld_cons _ _ Ha) as [Hh Hd].
  cbn [frac_bytes app]. rewrite must_ok_md by (reflexivity || assumption).
  change (h :: d' ++ t) with ((h :: d') ++ t). apply must_ok_digits_app; assumption.
Qed.

Lemma must_ok_render : forall p, wf p -> must_ok (render p) = true.
Proof.
  intros [neg ip f x] (Ha & Hn & Hz & Hf & Hx). cbn [p_neg p_int p_frac p_exp] in *.
  unfold render. cbn [p_neg p_int p_frac p_exp].
  destruct ip as [|h d']; [congruence|]. destruct (alld_cons _ _ Ha) as [Hh Hd].
  assert (E : must_ok ((h :: d') ++ frac_bytes f ++ exp_bytes x) = true).
  { rewrite must_ok_digits_app by assumption. rewrite must_ok_frac by assumption.
    apply must_ok_exp; assumption. }
  destruct neg; cbn [sign_bytes app] in *; [|exact E].
  rewrite must_ok_md by (reflexivity || assumption). exact E.
Qed.

Lemma partb_digits : forall ds, alld ds = true -> forallb partb ds = true.
Proof.
  induction ds as [|b r IH]; intros Ha; [reflexivity|]. destruct (alld_cons _ _ Ha) as [Hb Hr].
  cbn [forallb]. rewrite dig_partb by assumption. auto.
Qed.

Lemma partb_render : forall p, wf p -> forallb partb (render p) = true.
Proof.
  intros [neg ip f x] (Ha & Hn & Hz & Hf & Hx). cbn [p_neg p_int p_frac p_exp] in *.
  unfold render. cbn [p_neg p_int p_frac p_exp]. rewrite !forallb_app.
  rewrite (partb_digits ip Ha).
  assert (E1 : forallb partb (sign_bytes neg) = true) by (destruct neg; reflexivity).
  assert (E2 : forallb partb (frac_bytes f) = true).
  { destruct f as [fp|]; [|reflexivity]. destruct Hf as [Hfa _]. cbn [frac_bytes forallb].
    rewrite (partb_digits fp Hfa). reflexivity. }
  assert (E3 : forallb partb (exp_bytes x) = true).
  { destruct x as [[[m sg] d]|]; [|reflexivity]. destruct Hx as (Hm & Hsg & Hxa & _).
    cbn [exp_bytes forallb]. rewrite forallb_app, (partb_digits d Hxa).
    destruct Hm; subst m; destruct Hsg as [Hsg|[Hsg|Hsg]]; subst sg; reflexivity. }
  rewrite E1, E2, E3. reflexivity.
Qed.

Definition is_some {A} (o : option A) : bool := match o with Some _ => true | None => false end.

Lemma flags_render : forall p, wf p ->
  let found := lor_fold (render p) 0 in
  has found fFLOATONLY = is_some (p_frac p) || is_some (p_exp p) /\
  (p_frac p = None -> p_exp p = None -> has found fMINUS = p_neg p).
Proof.
  intros [neg ip f x] (Ha & Hn & Hz & Hf & Hx). cbn [p_neg p_int p_frac p_exp] in *.
  cbv zeta. rewrite !has_lor_fold. unfold render. cbn [p_neg p_int p_frac p_exp].
  rewrite !existsb_app. rewrite !(existsb_digits _ ip Ha) by reflexivity.
  split.
  - change (has 0 fFLOATONLY) with false.
    replace (existsb (fun b => has (nr b) fFLOATONLY) (sign_bytes neg)) with false
      by (destruct neg; reflexivity).
    cbn [orb].
    destruct f as [fp|]; cbn [frac_bytes existsb is_some].
    + reflexivity.
    + destruct x as [[[m sg] d]|]; cbn [exp_bytes existsb is_some]; [|reflexivity].
      destruct Hx as ([Hm|Hm] & _); subst m; reflexivity.
  - intros -> ->. cbn [frac_bytes exp_bytes existsb]. rewrite !orb_false_r.
    destruct neg; reflexivity.
Qed.

(* ------------------------------------------------------------------ *)
(* Go's float syntax on a well-formed literal                          *)

Lemma digits_val_app : forall a b acc, digits_val (a ++ b) acc = digits_val b (digits_val a acc).
Proof. induction a; intros; cbn [app digits_val]; auto. Qed.

Lemma mant_loop_digits : forall ds t sawdot sd m fl, alld ds = true ->
  mant_loop (ds ++ t) sawdot sd m fl =
  mant_loop t sawdot (match ds with [] => sd | _ => true end)
            (digits_val (map dv ds) m)
            (if sawdot then (fl + Z.of_nat (length ds))%Z else fl).
Proof.
  induction ds as [|b r IH]; intros t sawdot sd m fl Ha.
  - cbn [app map digits_val length]. destruct sawdot; [rewrite Z.add_0_r|]; reflexivity.
  - destruct (alld_cons _ _ Ha) as [Hb Hr]. destruct (dig_facts b Hb) as (_ & _ & _ & Hdot & _).
    cbn [app mant_loop]. cbv zeta. rewrite Hdot. fold (isdig b). rewrite Hb.
    rewrite IH by assumption. cbn [map digits_val length]. unfold dv at 2.
    replace (match r with [] => true | _ :: _ => true end) with true by (destruct r; reflexivity).
    destruct sawdot; [|reflexivity]. f_equal. lia.
Qed.

Lemma mant_loop_stop_e : forall m0 r sawdot sd m fl, (m0 = b_e \/ m0 = b_E) ->
  mant_loop (m0 :: r) sawdot sd m fl = (m0 :: r, sd, m, fl).
Proof. intros m0 r sawdot sd m fl [H|H]; subst m0; reflexivity. Qed.

Lemma all_digits_val_spec : forall ds acc, alld ds = true ->
  all_digits_val ds acc = Some (digits_val (map dv ds) acc).
Proof.
  induction ds as [|b r IH]; intros acc Ha; [reflexivity|].
  destruct (alld_cons _ _ Ha) as [Hb Hr]. cbn [all_digits_val]. cbv zeta. fold (isdig b).
  rewrite Hb. rewrite IH by assumption. reflexivity.
Qed.

Lemma all_digits_val_inv : forall s acc v, all_digits_val s acc = Some v -> alld s = true.
Proof.
  induction s as [|b r IH]; intros acc v H; [reflexivity|].
  cbn [all_digits_val] in H. cbv zeta in H. fold (isdig b) in H. cbn [alld forallb].
  destruct (isdig b); [|discriminate H]. cbn [andb]. exact (IH _ _ H).
Qed.

Definition frac_digits (p : pieces) : bytes := match p_frac p with Some fp => fp | None => [] end.
Definition mant (p : pieces) : Z := digits_val (map dv (p_int p) ++ map dv (frac_digits p)) 0.
Definition e10_of (p : pieces) : Z :=
  ((match exp_val (p_exp p) with Some e => e | None => 0 end)
   - Z.of_nat (length (frac_digits p)))%Z.

Definition go_float_body (neg : bool) (s1 : bytes) : option (bool * Z * Z) :=
  let '(rest, sawdigits, m, fraclen) := mant_loop s1 false false 0%Z 0%Z in
  if negb sawdigits then None
  else
    match rest with
    | [] => Some (neg, m, (- fraclen)%Z)
    | b :: r =>
      if (b2n b =? c_e) || (b2n b =? c_E) then
        let '(eneg, r1) := match r with
                           | c :: r' => if b2n c =? cPLUS then (false, r') else if b2n c =? cMINUS then (true, r') else (false, r)
                           | [] => (false, r)
                           end in
        match r1 with
        | [] => None
        | _ => match all_digits_val r1 0%Z with
               | Some e => Some (neg, m, ((if eneg then (- e) else e) - fraclen)%Z)
               | None => None
               end
        end
      else None
    end.

Lemma go_float_syntax_unfold : forall s,
  go_float_syntax s =
  let '(neg, s1) := match s with
                    | b :: r => if b2n b =? cPLUS then (false, r) else if b2n b =? cMINUS then (true, r) else (false, s)
                    | [] => (false, s)
                    end in
  go_float_body neg s1.
Proof. intros s. reflexivity. Qed.

Lemma go_float_syntax_sign : forall neg s1,
  match s1 with b :: _ => (b2n b =? cPLUS) = false /\ (b2n b =? cMINUS) = false | [] => True end ->
  go_float_syntax (sign_bytes neg ++ s1) = go_float_body neg s1.
Proof.
  intros neg s1 H. rewrite go_float_syntax_unfold. destruct neg; cbn [sign_bytes app].
  - reflexivity.
  - destruct s1 as [|b r]; [reflexivity|]. destruct H as [H1 H2]. rewrite H1, H2. reflexivity.
Qed.

Lemma go_float_syntax_render : forall p, wf p ->
  go_float_syntax (render p) = Some (p_neg p, mant p, e10_of p).
Proof.
  intros [neg ip f x] (Ha & Hn & Hz & Hf & Hx). cbn [p_neg p_int p_frac p_exp] in *.
  unfold mant, e10_of, frac_digits, render. cbn [p_neg p_int p_frac p_exp].
  destruct ip as [|h d']; [congruence|]. destruct (alld_cons _ _ Ha) as [Hh Hd].
  destruct (dig_facts h Hh) as (_ & Hhm & Hhp & _).
  rewrite go_float_syntax_sign by (split; assumption).
  unfold go_float_body.
  set (tail := frac_bytes f ++ exp_bytes x).
  rewrite mant_loop_digits by assumption. unfold tail. clear tail.
  set (m1 := digits_val (map dv (h :: d')) 0%Z).
  (* fraction *)
  assert (Ef : mant_loop (frac_bytes f ++ exp_bytes x) false true m1 0%Z =
               mant_loop (exp_bytes x) (is_some f) true
                 (digits_val (map dv match f with Some fp => fp | None => [] end) m1)
                 (Z.of_nat (length match f with Some fp => fp | None => [] end))).
  { destruct f as [fp|]; cbn [frac_bytes app is_some].
    - destruct Hf as [Hfa Hfn].
      change (mant_loop (bDOT :: fp ++ exp_bytes x) false true m1 0%Z)
        with (mant_loop (fp ++ exp_bytes x) true true m1 0%Z).
      rewrite mant_loop_digits by assumption.
      replace (match fp with [] => true | _ :: _ => true end) with true by (destruct fp; reflexivity).
      reflexivity.
    - reflexivity. }
  rewrite Ef. clear Ef.
  rewrite digits_val_app. fold m1.
  set (m2 := digits_val (map dv match f with Some fp => fp | None => [] end) m1).
  set (fl := Z.of_nat (length match f with Some fp => fp | None => [] end)).
  destruct x as [[[m0 sg] d]|]; cbn [exp_bytes exp_val].
  - destruct Hx as (Hm & Hsg & Hxa & Hxn).
    rewrite mant_loop_stop_e by assumption. cbn [negb].
    replace ((b2n m0 =? c_e) || (b2n m0 =? c_E)) with true by (destruct Hm; subst m0; reflexivity).
    destruct d as [|dh d'']; [congruence|]. destruct (alld_cons _ _ Hxa) as [Hdh Hdd].
    destruct (dig_facts dh Hdh) as (_ & Hdm & Hdp & _).
    destruct Hsg as [Hsg|[Hsg|Hsg]]; subst sg; cbn [app sg_neg].
    + rewrite Hdp, Hdm. rewrite all_digits_val_spec by assumption. reflexivity.
    + change (b2n bPLUS =? cPLUS) with true. cbv iota.
      rewrite all_digits_val_spec by assumption. reflexivity.
    + change (b2n bMINUS =? cPLUS) with false. change (b2n bMINUS =? cMINUS) with true. cbv iota.
      rewrite all_digits_val_spec by assumption. reflexivity.
  - cbn [mant_loop negb]. f_equal; f_equal; lia.
Qed.

(* ------------------------------------------------------------------ *)
(* the specification on a well-formed literal                          *)

Definition in_int64 (v : Z) : bool := ((min_int64 <=? v) && (v <=? max_int64))%Z.
Definition in_uint64 (v : Z) : bool := ((0 <=? v) && (v <=? max_uint64))%Z.

Definition float_res (neg : bool) (m e10 : Z) (flag : N) : option num :=
  let fl := dec_to_float neg m e10 in
  if sf_is_finite fl then Some (NFloat (bits_of_sf fl) flag) else None.

Lemma num_spec_lit : forall p,
  num_spec (lit_of p) =
  match p_frac p, p_exp p with
  | None, None =>
    let v := if p_neg p then (- mant p)%Z else mant p in
    if in_int64 v then Some (NInt v)
    else if in_uint64 v then Some (NUint (Z.to_N v))
    else float_res (p_neg p) (mant p) (e10_of p) 1
  | _, _ => float_res (p_neg p) (mant p) (e10_of p) 0
  end.
Proof.
  intros [neg ip f x]. unfold num_spec, lit_of, mant, e10_of, frac_digits, float_res, in_int64, in_uint64.
  cbn [nl_neg nl_int nl_frac nl_exp p_neg p_int p_frac p_exp].
  destruct f as [fp|]; cbn [option_map]; [rewrite map_length|];
    destruct x as [[[m sg] d]|]; cbn [exp_val]; reflexivity.
Qed.

(* ------------------------------------------------------------------ *)
(* float path                                                          *)

Lemma float_zero_check : forall p rest, wf p ->
  let buf := render p ++ rest in
  let off := if nth_b buf 0 =? cMINUS then 1%nat else 0%nat in
  (S off <? length (render p))%nat && (nth_b buf off =? c0)
  && negb (has (isNumberRune_ref (nth_b buf (S off))) fFLOATONLY) = false.
Proof.
  intros [neg ip f x] rest (Ha & Hn & Hz & Hf & Hx). cbn [p_neg p_int p_frac p_exp] in *.
  unfold render. cbn [p_neg p_int p_frac p_exp].
  destruct ip as [|h d']; [congruence|]. destruct (alld_cons _ _ Ha) as [Hh Hd].
  destruct (dig_facts h Hh) as (_ & Hhm & _).
  set (tail := frac_bytes f ++ exp_bytes x).
  assert (Ht : tail = [] \/ exists c r, tail = c :: r /\ has (nr c) fFLOATONLY = true).
  { unfold tail. destruct f as [fp|].
    - right. exists bDOT, (fp ++ exp_bytes x). split; reflexivity.
    - destruct x as [[[m sg] d]|].
      + right. exists m, (sg ++ d). split; [reflexivity|].
        destruct Hx as ([Hm|Hm] & _); subst m; reflexivity.
      + left. reflexivity. }
  cbv zeta. unfold nth_b.
  destruct d' as [|h2 d''].
  - (* single integer digit *)
    destruct Ht as [Ht|(c & r & Ht & Hc)]; rewrite Ht; destruct neg; cbn [sign_bytes app nth length].
    + change (b2n bMINUS =? cMINUS) with true. cbv iota. cbn [nth]. reflexivity.
    + rewrite Hhm. cbn [nth]. reflexivity.
    + change (b2n bMINUS =? cMINUS) with true. cbv iota. cbn [nth].
      fold (nr c). rewrite Hc. rewrite andb_false_r. reflexivity.
    + rewrite Hhm. cbn [nth]. fold (nr c). rewrite Hc. rewrite andb_false_r. reflexivity.
  - cbn [no_lead0] in Hz. apply negb_true_iff in Hz.
    destruct neg; cbn [sign_bytes app nth length].
    + change (b2n bMINUS =? cMINUS) with true. cbv iota. cbn [nth]. rewrite Hz.
      rewrite andb_false_r. reflexivity.
    + rewrite Hhm. cbn [nth]. rewrite Hz. rewrite andb_false_r. reflexivity.
Qed.

Lemma float_path_render : forall p rest flag, wf p ->
  float_path (render p ++ rest) (length (render p)) (render p) flag =
  option_map enc_num (float_res (p_neg p) (mant p) (e10_of p) flag).
Proof.
  intros p rest flag Hwf. unfold float_path.
  pose proof (float_zero_check p rest Hwf) as Hz. cbv zeta in Hz. rewrite Hz.
  unfold go_parse_float. rewrite go_float_syntax_render by assumption.
  unfold float_res. cbv zeta.
  destruct (sf_is_finite (dec_to_float (p_neg p) (mant p) (e10_of p))); reflexivity.
Qed.

(* ------------------------------------------------------------------ *)
(* integer attempt                                                     *)

Lemma int_zero_check : forall neg ip rest, alld ip = true -> ip <> [] -> no_lead0 ip = true ->
  let buf := sign_bytes neg ++ ip ++ rest in
  let pos := length (sign_bytes neg ++ ip) in
  (negb neg && (1 <? pos)%nat && (nth_b buf 0 =? c0)) || (neg && (2 <? pos)%nat && (nth_b buf 1 =? c0))
  = false.
Proof.
  intros neg ip rest Ha Hn Hz. cbv zeta. unfold nth_b.
  destruct ip as [|h d']; [congruence|].
  destruct d' as [|h2 d''].
  - destruct neg; cbn [sign_bytes app length nth negb andb orb]; reflexivity.
  - cbn [no_lead0] in Hz. apply negb_true_iff in Hz.
    destruct neg; cbn [sign_bytes app length nth negb andb orb]; rewrite Hz;
      rewrite ?andb_false_r; reflexivity.
Qed.

Lemma zval_mant : forall neg ip,
  zval neg ip = if neg then (- digits_val (map dv ip) 0)%Z else digits_val (map dv ip) 0.
Proof. intros. unfold zval. rewrite nval_digits_val. reflexivity. Qed.

(* more than maxIntLen characters: outside both integer ranges *)
Lemma long_literal_out_of_range : forall neg ip,
  alld ip = true -> no_lead0 ip = true ->
  (20 < length (sign_bytes neg ++ ip))%nat ->
  in_int64 (zval neg ip) = false /\ in_uint64 (zval neg ip) = false.
Proof.
  intros neg ip Ha Hz Hlen. destruct ip as [|h d'].
  { destruct neg; cbn in Hlen; lia. }
  destruct (alld_cons _ _ Ha) as [Hh Hd].
  assert (Hd' : d' <> []) by (destruct d'; [destruct neg; cbn in Hlen; lia | discriminate]).
  pose proof (nval_ge_pow h d' Hh Hz Hd') as Hge.
  rewrite app_length in Hlen. cbn [length] in Hlen.
  unfold in_int64, in_uint64, zval, min_int64, max_int64, max_uint64.
  set (u := nval (h :: d') 0) in *.
  destruct neg; cbn [sign_bytes length] in Hlen.
  - assert (10 ^ 19 <= 10 ^ N.of_nat (length d')) by (apply N.pow_le_mono_r; lia).
    change (10 ^ 19) with 10000000000000000000 in H.
    split.
    + destruct (Z.leb_spec (-9223372036854775808) (- Z.of_N u)); [lia | reflexivity].
    + destruct (Z.leb_spec 0 (- Z.of_N u)); [lia | reflexivity].
  - assert (10 ^ 20 <= 10 ^ N.of_nat (length d')) by (apply N.pow_le_mono_r; lia).
    change (10 ^ 20) with 100000000000000000000 in H.
    split.
    + destruct (Z.leb_spec (Z.of_N u) 9223372036854775807); [lia|]. apply andb_false_r.
    + destruct (Z.leb_spec (Z.of_N u) 18446744073709551615); [lia|]. apply andb_false_r.
Qed.

Lemma int_try_render : forall neg ip rest found,
  alld ip = true -> ip <> [] -> no_lead0 ip = true ->
  has found fFLOATONLY = false -> has found fMINUS = neg ->
  int_try (sign_bytes neg ++ ip ++ rest) (length (sign_bytes neg ++ ip)) (sign_bytes neg ++ ip) found =
  let v := zval neg ip in
  if in_int64 v then (Some (Some (mk_word TagInteger 0, u64_of_Z v)), 0)
  else if in_uint64 v then (Some (Some (mk_word TagUint 0, Z.to_N v)), 0)
  else (None, 1).
Proof.
  intros neg ip rest found Ha Hn Hz Hfo Hmin. unfold int_try. rewrite Hfo, Hmin. cbn [negb andb].
  cbv zeta. unfold maxIntLen.
  destruct (N.leb_spec (N.of_nat (length (sign_bytes neg ++ ip))) 20) as [Hle|Hgt].
  - pose proof (int_zero_check neg ip rest Ha Hn Hz) as Hc. cbv zeta in Hc. rewrite Hc.
    rewrite go_parse_int_spec by assumption. fold (in_int64 (zval neg ip)).
    destruct (in_int64 (zval neg ip)) eqn:Ei; [reflexivity|].
    unfold FloatOverflowedInteger.
    destruct neg; cbn [negb].
    + (* negative and below int64: not a uint either *)
      unfold in_int64, in_uint64, zval, min_int64, max_int64 in *.
      destruct (Z.leb_spec 0 (- Z.of_N (nval ip 0))); [|reflexivity].
      exfalso. apply andb_false_iff in Ei. destruct Ei as [Ei|Ei]; apply Z.leb_gt in Ei; lia.
    + cbn [sign_bytes app]. rewrite go_parse_uint_spec by assumption.
      unfold in_int64, in_uint64, zval, min_int64, max_int64, max_uint64, two64 in *.
      destruct (N.leb_spec 18446744073709551616 (nval ip 0)).
      * destruct (Z.leb_spec (Z.of_N (nval ip 0)) 18446744073709551615); [lia|].
        rewrite andb_false_r. reflexivity.
      * destruct (Z.leb_spec (Z.of_N (nval ip 0)) 18446744073709551615); [|lia].
        destruct (Z.leb_spec 0 (Z.of_N (nval ip 0))); [|lia].
        cbn [andb]. rewrite N2Z.id. reflexivity.
  - assert (Hlen : (20 < length (sign_bytes neg ++ ip))%nat) by lia.
    destruct (long_literal_out_of_range neg ip Ha Hz Hlen) as [E1 E2].
    rewrite E1, E2. reflexivity.
Qed.

(* ------------------------------------------------------------------ *)
(* S3: the model on a well-formed literal followed by a delimiter       *)

Lemma render_nonempty : forall p, wf p -> length (render p) <> 0%nat.
Proof.
  intros [neg ip f x] (Ha & Hn & _). cbn [p_int] in *. unfold render. cbn [p_neg p_int p_frac p_exp].
  rewrite !app_length. destruct ip; [congruence|]. cbn [length]. lia.
Qed.

Theorem model_render : forall p rest, wf p -> rest_ok rest = true ->
  parse_number_model (render p ++ rest) = option_map enc_num (num_spec (lit_of p)).
Proof.
  intros p rest Hwf Hr.
  rewrite parse_number_model_unfold.
  rewrite num_scan_app by (auto using partb_render).
  rewrite must_ok_render by assumption. cbn [Nat.add].
  unfold after_scan.
  destruct (Nat.eqb_spec (length (render p)) 0) as [E|_]; [exfalso; revert E; apply render_nonempty; assumption|].
  rewrite firstn_app_len.
  destruct (flags_render p Hwf) as [Hfo Hmin]. cbv zeta in Hfo, Hmin.
  rewrite num_spec_lit.
  destruct (p_frac p) as [fp|] eqn:Ef.
  { (* fraction: float only *)
    assert (Ei : int_try (render p ++ rest) (length (render p)) (render p) (lor_fold (render p) 0) = (None, 0)).
    { unfold int_try. rewrite Hfo. reflexivity. }
    rewrite Ei. apply float_path_render; assumption. }
  destruct (p_exp p) as [ex|] eqn:Ee.
  { assert (Ei : int_try (render p ++ rest) (length (render p)) (render p) (lor_fold (render p) 0) = (None, 0)).
    { unfold int_try. rewrite Hfo. reflexivity. }
    rewrite Ei. apply float_path_render; assumption. }
  (* integer literal *)
  specialize (Hmin eq_refl eq_refl). cbn [is_some orb] in Hfo.
  assert (Er : render p = sign_bytes (p_neg p) ++ p_int p).
  { unfold render. rewrite Ef, Ee. cbn [frac_bytes exp_bytes]. rewrite !app_nil_r. reflexivity. }
  destruct Hwf as (Ha & Hn & Hz & Hf & Hx).
  assert (Hwf : wf p) by (repeat split; assumption).
  assert (Em : mant p = digits_val (map dv (p_int p)) 0).
  { unfold mant, frac_digits. rewrite Ef. cbn [map]. rewrite app_nil_r. reflexivity. }
  assert (Ev : (if p_neg p then (- mant p)%Z else mant p) = zval (p_neg p) (p_int p)).
  { rewrite zval_mant, Em. reflexivity. }
  cbv zeta. rewrite Ev.
  pose proof (int_try_render (p_neg p) (p_int p) rest (lor_fold (render p) 0) Ha Hn Hz Hfo Hmin) as Hi.
  cbv zeta in Hi.
  set (found := lor_fold (render p) 0) in *.
  assert (Ei : int_try (render p ++ rest) (length (render p)) (render p) found =
               if in_int64 (zval (p_neg p) (p_int p))
               then (Some (Some (mk_word TagInteger 0, u64_of_Z (zval (p_neg p) (p_int p)))), 0)
               else if in_uint64 (zval (p_neg p) (p_int p))
                    then (Some (Some (mk_word TagUint 0, Z.to_N (zval (p_neg p) (p_int p)))), 0)
                    else (None, 1)).
  { rewrite Er, <- app_assoc. exact Hi. }
  rewrite Ei.
  destruct (in_int64 (zval (p_neg p) (p_int p))); [reflexivity|].
  destruct (in_uint64 (zval (p_neg p) (p_int p))); [reflexivity|].
  apply float_path_render; assumption.
Qed.

(* ------------------------------------------------------------------ *)
(* C03, acceptance direction                                           *)

Theorem number_model_correct : forall s l rest,
  lex_number s = Some (l, rest) -> rest_ok rest = true ->
  parse_number_model s = option_map enc_num (num_spec l).
Proof.
  intros s l rest H Hr. destruct (lex_number_shape s l rest H) as (p & Hwf & Hs & Hl).
  subst s l. apply model_render; assumption.
Qed.

(* non-finite literals are rejected *)
Corollary number_model_nonfinite : forall s l rest,
  lex_number s = Some (l, rest) -> rest_ok rest = true -> num_spec l = None ->
  parse_number_model s = None.
Proof. intros s l rest H Hr Hn. rewrite (number_model_correct s l rest H Hr), Hn. reflexivity. Qed.

(* the integer cascade, spelled out *)
Theorem cascade_correct : forall s l rest,
  lex_number s = Some (l, rest) -> nl_frac l = None -> nl_exp l = None -> rest_ok rest = true ->
  let m := digits_val (nl_int l) 0 in
  let v := if nl_neg l then (- m)%Z else m in
  parse_number_model s =
    (if in_int64 v then Some (mk_word TagInteger 0, u64_of_Z v)
     else if in_uint64 v then Some (mk_word TagUint 0, Z.to_N v)
     else let fl := dec_to_float (nl_neg l) m 0 in
          if sf_is_finite fl then Some (mk_word TagFloat 1, bits_of_sf fl) else None)
  /\ parse_number_model s = option_map enc_num (num_spec l).
Proof.
  intros s l rest H Hf He Hr. cbv zeta.
  pose proof (number_model_correct s l rest H Hr) as Hc. split; [|exact Hc].
  rewrite Hc. unfold num_spec. rewrite Hf, He. rewrite app_nil_r. cbn [length Z.of_nat Z.sub Z.opp].
  fold (in_int64 (if nl_neg l then (- digits_val (nl_int l) 0)%Z else digits_val (nl_int l) 0)).
  fold (in_uint64 (if nl_neg l then (- digits_val (nl_int l) 0)%Z else digits_val (nl_int l) 0)).
  destruct (in_int64 _); [reflexivity|]. destruct (in_uint64 _); [reflexivity|].
  destruct (sf_is_finite _); reflexivity.
Qed.

(* ------------------------------------------------------------------ *)
(* S4: whatever the model accepts is a well-formed literal + delimiter  *)

Lemma has_digit_isdig : forall b, has (nr b) fDIGIT = true -> isdig b = true.
Proof. destruct b; vm_compute; intro H; try discriminate H; reflexivity. Qed.

Lemma must_ok_tail : forall v t, must_ok (v :: t) = true -> must_ok t = true.
Proof. intros v t H. cbn [must_ok] in H. apply andb_true_iff in H. tauto. Qed.

Lemma must_ok_suffix : forall a b, must_ok (a ++ b) = true -> must_ok b = true.
Proof.
  induction a as [|v a IH]; intros b H; [exact H|].
  cbn [app] in H. apply must_ok_tail in H. auto.
Qed.

Lemma must_ok_md_inv : forall c t, has (nr c) fMUSTDIGIT = true -> must_ok (c :: t) = true ->
  exists h t', t = h :: t' /\ isdig h = true.
Proof.
  intros c t Hc H. cbn [must_ok] in H. rewrite Hc in H. apply andb_true_iff in H. destruct H as [H _].
  destruct t as [|h t']; [discriminate H|]. exists h, t'. split; [reflexivity|].
  apply has_digit_isdig; assumption.
Qed.

Lemma span_cons_digit : forall h t, isdig h = true ->
  exists d' r, span (h :: t) = (h :: d', r).
Proof.
  intros h t Hh. cbn [span]. rewrite Hh. destruct (span t) as [d r]. eauto.
Qed.

Definition exp_stage (neg : bool) (rest : bytes) (m fraclen : Z) : option (bool * Z * Z) :=
  match rest with
  | [] => Some (neg, m, (- fraclen)%Z)
  | b :: r =>
    if (b2n b =? c_e) || (b2n b =? c_E) then
      let '(eneg, r1) := match r with
                         | c :: r' => if b2n c =? cPLUS then (false, r') else if b2n c =? cMINUS then (true, r') else (false, r)
                         | [] => (false, r)
                         end in
      match r1 with
      | [] => None
      | _ => match all_digits_val r1 0%Z with
             | Some e => Some (neg, m, ((if eneg then (- e) else e) - fraclen)%Z)
             | None => None
             end
      end
    else None
  end.

Lemma go_float_body_eq : forall neg s1,
  go_float_body neg s1 =
  let '(rest, sawdigits, m, fraclen) := mant_loop s1 false false 0%Z 0%Z in
  if negb sawdigits then None else exp_stage neg rest m fraclen.
Proof. intros. reflexivity. Qed.

Lemma exp_stage_inv : forall neg t m fl res, exp_stage neg t m fl = Some res ->
  exists x, wf_exp x /\ t = exp_bytes x.
Proof.
  intros neg t m fl res H. destruct t as [|c r].
  { exists None. split; [exact I | reflexivity]. }
  cbn [exp_stage] in H.
  destruct ((b2n c =? c_e) || (b2n c =? c_E)) eqn:E; [|discriminate H].
  apply byte_e in E.
  assert (Hs : exists sg r1, (sg = [] \/ sg = [bPLUS] \/ sg = [bMINUS]) /\ r = sg ++ r1 /\
           match r with
           | c :: r' => if b2n c =? cPLUS then (false, r')
                        else if b2n c =? cMINUS then (true, r') else (false, r)
           | [] => (false, r)
           end = (sg_neg sg, r1)).
  { destruct r as [|c2 r'].
    - exists [], []. repeat split; auto.
    - destruct (b2n c2 =? cPLUS) eqn:Ep.
      + apply byte_plus in Ep. subst c2. exists [bPLUS], r'. repeat split; auto.
      + destruct (b2n c2 =? cMINUS) eqn:Em.
        * apply byte_minus in Em. subst c2. exists [bMINUS], r'. repeat split; auto.
        * exists [], (c2 :: r'). repeat split; auto. }
  destruct Hs as (sg & r1 & Hsg & Hr & Hm). rewrite Hm in H.
  destruct r1 as [|h r1']; [discriminate H|].
  destruct (all_digits_val (h :: r1') 0%Z) eqn:Ea; [|discriminate H].
  apply all_digits_val_inv in Ea.
  exists (Some (c, sg, h :: r1')). split.
  - repeat split; auto. discriminate.
  - cbn [exp_bytes]. subst r. reflexivity.
Qed.

Lemma mant_stop : forall t sawdot m fl,
  nodig_head t = true -> forallb partb t = true -> (sawdot = false -> nodot_head t = true) ->
  mant_loop t sawdot true m fl = (t, true, m, fl).
Proof.
  intros [|c r] sawdot m fl Hd Hp Hdot; [reflexivity|].
  cbn in Hd. cbn [forallb] in Hp. apply andb_true_iff in Hp. destruct Hp as [Hc _].
  destruct (partb_cases c Hc) as [H|[H|[H|[H|[H|H]]]]].
  - rewrite H in Hd. discriminate Hd.
  - subst c. destruct sawdot; [reflexivity|]. specialize (Hdot eq_refl). discriminate Hdot.
  - subst c. reflexivity.
  - subst c. reflexivity.
  - subst c. reflexivity.
  - subst c. reflexivity.
Qed.

Lemma forallb_app_r : forall (A : Type) (f : A -> bool) a b,
  forallb f (a ++ b) = true -> forallb f b = true.
Proof. intros A f a b H. rewrite forallb_app in H. apply andb_true_iff in H. tauto. Qed.

Lemma go_float_body_inv : forall neg h s1' res,
  isdig h = true -> forallb partb (h :: s1') = true -> must_ok (h :: s1') = true ->
  go_float_body neg (h :: s1') = Some res ->
  exists d' f x, h :: s1' = (h :: d') ++ frac_bytes f ++ exp_bytes x /\
                 alld (h :: d') = true /\ wf_frac f /\ wf_exp x.
Proof.
  intros neg h s1' res Hh Hp Hm H.
  destruct (span_cons_digit h s1' Hh) as (d' & t1 & Es).
  destruct (span_spec _ _ _ Es) as (E1 & Ha1 & Hn1).
  rewrite go_float_body_eq in H. rewrite E1 in H, Hp, Hm.
  rewrite mant_loop_digits in H by assumption.
  apply forallb_app_r in Hp. apply must_ok_suffix in Hm.
  set (m1 := digits_val (map dv (h :: d')) 0%Z) in H.
  destruct (nodot_head t1) eqn:Hdot.
  - (* no fraction *)
    rewrite mant_stop in H by auto. cbn [negb] in H.
    destruct (exp_stage_inv _ _ _ _ _ H) as (x & Hx & Et).
    exists d', None, x. rewrite E1, Et. repeat split; auto.
  - destruct t1 as [|c t1']; [discriminate Hdot|]. cbn in Hdot. apply negb_false_iff in Hdot.
    apply byte_dot in Hdot. subst c.
    change (mant_loop (bDOT :: t1') false true m1 0%Z) with (mant_loop t1' true true m1 0%Z) in H.
    destruct (must_ok_md_inv bDOT t1' eq_refl Hm) as (h' & t'' & Et1 & Hh').
    subst t1'. destruct (span_cons_digit h' t'' Hh') as (d2' & t2 & Es2).
    destruct (span_spec _ _ _ Es2) as (E2 & Ha2 & Hn2).
    apply must_ok_tail in Hm.
    change (bDOT :: h' :: t'') with ([bDOT] ++ h' :: t'') in Hp. apply forallb_app_r in Hp.
    rewrite E2 in H, Hp, Hm.
    rewrite mant_loop_digits in H by assumption.
    apply forallb_app_r in Hp. apply must_ok_suffix in Hm.
    rewrite mant_stop in H by (auto; discriminate). cbn [negb] in H.
    destruct (exp_stage_inv _ _ _ _ _ H) as (x & Hx & Et).
    exists d', (Some (h' :: d2')), x. rewrite E1, E2, Et. cbn [frac_bytes].
    repeat split; auto; try discriminate.
Qed.

(* the float path's leading-zero test, read backwards *)
Lemma float_zero_check_inv : forall neg h d' tail rest,
  alld (h :: d') = true ->
  let lex := sign_bytes neg ++ (h :: d') ++ tail in
  let buf := lex ++ rest in
  let off := if nth_b buf 0 =? cMINUS then 1%nat else 0%nat in
  (S off <? length lex)%nat && (nth_b buf off =? c0)
  && negb (has (isNumberRune_ref (nth_b buf (S off))) fFLOATONLY) = false ->
  no_lead0 (h :: d') = true.
Proof.
  intros neg h d' tail rest Ha. cbv zeta. intros Hc.
  destruct (alld_cons _ _ Ha) as [Hh Hd].
  destruct d' as [|h2 d'']; [reflexivity|].
  destruct (alld_cons _ _ Hd) as [Hh2 _].
  destruct (dig_facts h Hh) as (_ & Hhm & _). destruct (dig_facts h2 Hh2) as (Hn2 & _).
  cbn [no_lead0]. destruct (b2n h =? c0) eqn:E0; [exfalso|reflexivity].
  unfold nth_b in Hc.
  destruct neg; cbn [sign_bytes app nth length] in Hc.
  - change (b2n bMINUS =? cMINUS) with true in Hc. cbv iota in Hc. cbn [nth] in Hc.
    fold (nr h2) in Hc. rewrite E0, Hn2 in Hc. discriminate Hc.
  - rewrite Hhm in Hc. cbn [nth] in Hc. fold (nr h2) in Hc. rewrite E0, Hn2 in Hc. discriminate Hc.
Qed.

Lemma float_path_inv : forall b lt rest flag r,
  (b = bMINUS \/ isdig b = true) ->
  forallb partb (b :: lt) = true -> must_ok (b :: lt) = true ->
  float_path ((b :: lt) ++ rest) (length (b :: lt)) (b :: lt) flag = Some r ->
  exists p, wf p /\ b :: lt = render p.
Proof.
  intros b lt rest flag r Hb Hp Hm H. unfold float_path in H.
  match type of H with (if ?c then _ else _) = _ => destruct c eqn:Ez end; [discriminate H|].
  destruct (go_parse_float (b :: lt)) eqn:Ef; [|discriminate H]. clear H.
  unfold go_parse_float in Ef.
  destruct (go_float_syntax (b :: lt)) as [[[ng m] e]|] eqn:Eg; [|discriminate Ef]. clear Ef.
  (* normalise the sign *)
  assert (Hs : exists neg h s1', b :: lt = sign_bytes neg ++ h :: s1' /\ isdig h = true).
  { destruct Hb as [Hb|Hb].
    - subst b. destruct (must_ok_md_inv bMINUS lt eq_refl Hm) as (h & t' & Et & Hh).
      exists true, h, t'. subst lt. split; [reflexivity | assumption].
    - exists false, b, lt. split; [reflexivity | assumption]. }
  destruct Hs as (neg & h & s1' & El & Hh).
  destruct (dig_facts h Hh) as (_ & Hhm & Hhp & _).
  rewrite El in Eg, Hp, Hm, Ez |- *.
  rewrite go_float_syntax_sign in Eg by (split; assumption).
  apply forallb_app_r in Hp. apply must_ok_suffix in Hm.
  destruct (go_float_body_inv _ _ _ _ Hh Hp Hm Eg) as (d' & f & x & Es & Ha & Hf & Hx).
  rewrite Es in Ez |- *.
  exists {| p_neg := neg; p_int := h :: d'; p_frac := f; p_exp := x |}.
  split; [|reflexivity].
  unfold wf. cbn [p_int p_frac p_exp]. repeat split; auto; try discriminate.
  eapply (float_zero_check_inv neg h d' (frac_bytes f ++ exp_bytes x) rest Ha). exact Ez.
Qed.

(* a lexeme made of an optional minus and digits only *)
Lemma int_shape_wf : forall neg ip, alld ip = true -> ip <> [] -> no_lead0 ip = true ->
  wf {| p_neg := neg; p_int := ip; p_frac := None; p_exp := None |} /\
  sign_bytes neg ++ ip = render {| p_neg := neg; p_int := ip; p_frac := None; p_exp := None |}.
Proof.
  intros. split.
  - unfold wf. cbn. repeat split; auto.
  - unfold render. cbn [p_neg p_int p_frac p_exp frac_bytes exp_bytes]. rewrite !app_nil_r. reflexivity.
Qed.

Lemma int_try_inv : forall b lt rest r fl,
  (b = bMINUS \/ isdig b = true) ->
  int_try ((b :: lt) ++ rest) (length (b :: lt)) (b :: lt) (lor_fold (b :: lt) 0) = (Some (Some r), fl) ->
  exists p, wf p /\ b :: lt = render p.
Proof.
  intros b lt rest r fl Hb H. unfold int_try in H.
  set (found := lor_fold (b :: lt) 0) in H.
  destruct (negb (has found fFLOATONLY) && (N.of_nat (length (b :: lt)) <=? maxIntLen)).
  2:{ destruct (negb (has found fFLOATONLY)); discriminate H. }
  match type of H with (if ?c then _ else _) = _ => destruct c eqn:Ez end; [discriminate H|].
  assert (Hbp : b <> bPLUS).
  { destruct Hb as [Hb|Hb]; [subst b; discriminate|]. intro; subst b. discriminate Hb. }
  (* all-digit lexeme: no minus flag, first leading-zero test applies *)
  assert (Hdig : alld (b :: lt) = true -> exists p, wf p /\ b :: lt = render p).
  { intros Ha.
    assert (Hmin : has found fMINUS = false).
    { unfold found. rewrite has_lor_fold. rewrite existsb_digits by (assumption || reflexivity). reflexivity. }
    rewrite Hmin in Ez. cbn [negb andb orb] in Ez. rewrite orb_false_r in Ez.
    assert (Hz : no_lead0 (b :: lt) = true).
    { destruct lt as [|h2 lt']; [reflexivity|]. cbn [no_lead0].
      unfold nth_b in Ez. cbn [app nth length] in Ez. cbn [Nat.ltb Nat.leb andb] in Ez.
      rewrite Ez. reflexivity. }
    destruct (int_shape_wf false (b :: lt) Ha ltac:(discriminate) Hz) as [W R].
    eexists. split; [exact W | exact R]. }
  destruct (go_parse_int (b :: lt)) as [z| |] eqn:Epi.
  - destruct (go_parse_int_val b lt z Epi Hbp) as [(Eb & Ha & Hn)|(Hnm & Ha)].
    + (* "-" digits *)
      subst b.
      assert (Hmin : has found fMINUS = true).
      { unfold found. rewrite has_lor_fold. cbn [existsb]. reflexivity. }
      rewrite Hmin in Ez. cbn [negb andb orb] in Ez.
      assert (Hz : no_lead0 lt = true).
      { destruct lt as [|h1 [|h2 lt']]; try reflexivity. cbn [no_lead0].
        unfold nth_b in Ez. cbn [app nth length] in Ez. cbn [Nat.ltb Nat.leb andb] in Ez.
        rewrite Ez. reflexivity. }
      destruct (int_shape_wf true lt Ha Hn Hz) as [W R].
      eexists. split; [exact W | exact R].
    + apply Hdig; assumption.
  - destruct (negb (has found fMINUS)); [|discriminate H].
    destruct (go_parse_uint (b :: lt)) eqn:Eu; try discriminate H.
    apply Hdig. exact (proj1 (go_parse_uint_val _ _ Eu)).
  - destruct (negb (has found fMINUS)); [|discriminate H].
    destruct (go_parse_uint (b :: lt)) eqn:Eu; try discriminate H.
    apply Hdig. exact (proj1 (go_parse_uint_val _ _ Eu)).
Qed.

Theorem model_accepts_shape : forall b t r,
  (b = bMINUS \/ isdig b = true) ->
  parse_number_model (b :: t) = Some r ->
  exists p rest, wf p /\ b :: t = render p ++ rest /\ rest_ok rest = true.
Proof.
  intros b t r Hb H. rewrite parse_number_model_unfold in H.
  destruct (num_scan (b :: t) 0 0 0) as [[pos found]|] eqn:Es; [|discriminate H].
  destruct (num_scan_inv _ _ _ _ _ Es) as (lex & rest & Ebuf & Hp & Hr & Hm & Hpos & Hfound).
  cbn [Nat.add] in Hpos. subst pos found.
  unfold after_scan in H.
  destruct lex as [|b' lt]; [discriminate H|].
  assert (b' = b) by (cbn [app] in Ebuf; congruence). subst b'.
  cbn [length Nat.eqb] in H. change (S (length lt)) with (length (b :: lt)) in H.
  rewrite Ebuf in H. rewrite firstn_app_len in H.
  destruct (int_try ((b :: lt) ++ rest) (length (b :: lt)) (b :: lt) (lor_fold (b :: lt) 0))
    as [[[r'|]|] fl] eqn:Ei.
  - destruct (int_try_inv _ _ _ _ _ Hb Ei) as (p & W & R).
    exists p, rest. rewrite Ebuf, R. auto.
  - discriminate H.
  - destruct (float_path_inv _ _ _ _ _ Hb Hp Hm H) as (p & W & R).
    exists p, rest. rewrite Ebuf, R. auto.
Qed.

(* ------------------------------------------------------------------ *)
(* C03, rejection direction                                            *)

Theorem number_model_reject : forall b t,
  (b2n b =? cMINUS) || is_digit (b2n b) = true ->
  (lex_number (b :: t) = None \/
   exists l rest, lex_number (b :: t) = Some (l, rest) /\ rest_ok rest = false) ->
  parse_number_model (b :: t) = None.
Proof.
  intros b t Hb Hlex.
  assert (Hb' : b = bMINUS \/ isdig b = true).
  { apply orb_true_iff in Hb. destruct Hb as [Hb|Hb]; [left; apply byte_minus; assumption | right; exact Hb]. }
  destruct (parse_number_model (b :: t)) as [r|] eqn:E; [exfalso|reflexivity].
  destruct (model_accepts_shape b t r Hb' E) as (p & rest & W & Es & Hr).
  pose proof (lex_number_render p rest W Hr) as Hl. rewrite <- Es in Hl.
  destruct Hlex as [Hn|(l & rest' & Hs & Hbad)].
  - congruence.
  - rewrite Hs in Hl. inversion Hl; subst. congruence.
Qed.

(* the model accepts exactly the RFC 8259 literals followed by nothing or an
   end-of-value byte *)
Corollary number_model_accepts_iff : forall b t,
  (b2n b =? cMINUS) || is_digit (b2n b) = true ->
  (parse_number_model (b :: t) <> None <->
   exists l rest n, lex_number (b :: t) = Some (l, rest) /\ rest_ok rest = true /\ num_spec l = Some n).
Proof.
  intros b t Hb. split.
  - intros Hne.
    destruct (lex_number (b :: t)) as [[l rest]|] eqn:El.
    + destruct (rest_ok rest) eqn:Hr.
      * pose proof (number_model_correct _ _ _ El Hr) as Hc.
        destruct (num_spec l) as [n|] eqn:En.
        -- exists l, rest, n. auto.
        -- rewrite Hc in Hne. cbn in Hne. congruence.
      * exfalso. apply Hne. apply number_model_reject; [assumption|]. right. exists l, rest. auto.
    + exfalso. apply Hne. apply number_model_reject; auto.
  - intros (l & rest & n & El & Hr & En). rewrite (number_model_correct _ _ _ El Hr), En. discriminate.
Qed.

(* ------------------------------------------------------------------ *)
(* The hypotheses are satisfiable: concrete literals                    *)

Definition B (s : string) : bytes := list_byte_of_string s.
Local Open Scope string_scope.

(* what the specification says about a buffer: (delimiter is legal, encoded
   num_spec) *)
Definition spec_view (s : string) : option (bool * option (N * N)) :=
  match lex_number (B s) with
  | Some (l, rest) => Some (rest_ok rest, option_map enc_num (num_spec l))
  | None => None
  end.

(* number_model_correct applies (lexes, legal delimiter) and gives ... *)
Example ex_frac_neg :
  spec_view "-12.5]" = Some (true, Some (mk_word TagFloat 0, 13846598529327300608))
  /\ parse_number_model (B "-12.5]") = Some (mk_word TagFloat 0, 13846598529327300608).
Proof. vm_compute. split; reflexivity. Qed.

Example ex_max_uint :
  spec_view "18446744073709551615," = Some (true, Some (mk_word TagUint 0, 18446744073709551615))
  /\ parse_number_model (B "18446744073709551615,") = Some (mk_word TagUint 0, 18446744073709551615).
Proof. vm_compute. split; reflexivity. Qed.

Example ex_uint_overflow :
  spec_view "18446744073709551616 " = Some (true, Some (mk_word TagFloat 1, 4895412794951729152))
  /\ parse_number_model (B "18446744073709551616 ") = Some (mk_word TagFloat 1, 4895412794951729152).
Proof. vm_compute. split; reflexivity. Qed.

Example ex_int_underflow :
  spec_view "-9223372036854775809}" = Some (true, Some (mk_word TagFloat 1, 14114281232179134464))
  /\ parse_number_model (B "-9223372036854775809}") = Some (mk_word TagFloat 1, 14114281232179134464).
Proof. vm_compute. split; reflexivity. Qed.

Example ex_min_int :
  spec_view "-9223372036854775808}" = Some (true, Some (mk_word TagInteger 0, 9223372036854775808))
  /\ parse_number_model (B "-9223372036854775808}") = Some (mk_word TagInteger 0, 9223372036854775808).
Proof. vm_compute. split; reflexivity. Qed.

Example ex_non_finite :   (* number_model_nonfinite *)
  spec_view "1e400]" = Some (true, None) /\ parse_number_model (B "1e400]") = None.
Proof. vm_compute. split; reflexivity. Qed.

Example ex_min_subnormal :
  spec_view "4.9e-324," = Some (true, Some (mk_word TagFloat 0, 1))
  /\ parse_number_model (B "4.9e-324,") = Some (mk_word TagFloat 0, 1).
Proof. vm_compute. split; reflexivity. Qed.

Example ex_long_integer :   (* 30 digits: longer than maxIntLen *)
  spec_view "123456789012345678901234567890]" = Some (true, Some (mk_word TagFloat 1, 5042042089369253694))
  /\ parse_number_model (B "123456789012345678901234567890]") = Some (mk_word TagFloat 1, 5042042089369253694).
Proof. vm_compute. split; reflexivity. Qed.

Example ex_neg_zero :
  spec_view "-0.0," = Some (true, Some (mk_word TagFloat 0, 9223372036854775808))
  /\ spec_view "-0," = Some (true, Some (mk_word TagInteger 0, 0)).
Proof. vm_compute. split; reflexivity. Qed.

Example ex_end_of_buffer :   (* rest = [] is accepted as well *)
  spec_view "17" = Some (true, Some (mk_word TagInteger 0, 17))
  /\ parse_number_model (B "17") = Some (mk_word TagInteger 0, 17).
Proof. vm_compute. split; reflexivity. Qed.

(* cascade_correct applies: no fraction, no exponent *)
Example ex_cascade_hyp :
  match lex_number (B "18446744073709551616 ") with
  | Some (l, rest) => nl_frac l = None /\ nl_exp l = None /\ rest_ok rest = true
  | None => False
  end.
Proof. vm_compute. repeat split; reflexivity. Qed.

(* number_model_reject applies: the lexer fails ... *)
Example ex_reject_lexer :
  map spec_view ["01,"; "-01.5,"; "1.e5,"; "-"; "-,"; "1e,"; "1e+,"; "0e,"; "00,"; "1.,"; "-.5,"; "1e+-5,"]
  = [None; None; None; None; None; None; None; None; None; None; None; None]
  /\ map (fun s => parse_number_model (B s))
       ["01,"; "-01.5,"; "1.e5,"; "-"; "-,"; "1e,"; "1e+,"; "0e,"; "00,"; "1.,"; "-.5,"; "1e+-5,"]
  = [None; None; None; None; None; None; None; None; None; None; None; None].
Proof. vm_compute. split; reflexivity. Qed.

(* ... or lexes but is followed by an illegal byte *)
Example ex_reject_delim :
  map (fun s => match spec_view s with Some (ok, _) => Some ok | None => None end)
      ["1.5x"; "1e5.5,"; "1+2,"; "1-2,"; "1e5e5,"; "1.5.5,"; "1e-5-,"; "12a"; "0x10,"]
  = [Some false; Some false; Some false; Some false; Some false; Some false; Some false; Some false; Some false]
  /\ map (fun s => parse_number_model (B s))
      ["1.5x"; "1e5.5,"; "1+2,"; "1-2,"; "1e5e5,"; "1.5.5,"; "1e-5-,"; "12a"; "0x10,"]
  = [None; None; None; None; None; None; None; None; None].
Proof. vm_compute. split; reflexivity. Qed.

(* outside the scope of number_model_reject (first byte is '+'): the model
   accepts a leading plus sign, which RFC 8259 does not *)
Example finding_leading_plus :
  parse_number_model (B "+1,") = Some (mk_word TagInteger 0, 1) /\ lex_number (B "+1,") = None.
Proof. vm_compute. split; reflexivity. Qed.

Print Assumptions number_model_correct.
Print Assumptions cascade_correct.
Print Assumptions model_accepts_shape.
Print Assumptions number_model_reject.
Print Assumptions number_model_accepts_iff.
