(* ApiTotalDeser.v — what Deserialize guarantees about the tape it rebuilds,
   as far as the termination of Interface() needs it: every word of the
   result either is not a backward array-start, or follows a word whose tag
   byte is not 0 (the first word of a two-word entry).  Holds for ANY
   destination tape (fresh or reused, whatever it contained) of fewer than
   2^56 words.  Consequence: [member_arrays_forward] for the result, with any
   string buffer and message shorter than 2^56 bytes. *)
From Coq Require Import Lia ZifyBool ZifyN ZifyNat.
From SJ Require Import Model.Base Model.RefTables Spec.Json Model.Tape Model.Iter Model.Walk Model.Serialize.
From SJ Require Import Proofs.Stage2Base Proofs.TapeBase Proofs.DeserSafe Proofs.SerBase.
From SJ Require Import Proofs.ApiTotalBase Proofs.ApiTotalWalk.
Open Scope N_scope.

Definition goodw (T : list N) (p w : N) : Prop :=
  (word_tag w = TagArrayStart -> p < word_val w) \/
  (1 <= p /\ exists wq, get T (p - 1) = Some wq /\ two56 <= wq).

Definition ginv (T : list N) (off : N) : Prop :=
  forall p w, p < off -> get T p = Some w -> goodw T p w.

Lemma ginv_agree T T' off : (forall q, q < off -> get T' q = get T q) -> ginv T off -> ginv T' off.
Proof.
  intros Ha Hi p w Hp Hg. rewrite Ha in Hg by exact Hp.
  destruct (Hi p w Hp Hg) as [H|(H1 & wq & H2 & H3)]; [left; exact H|].
  right. split; [exact H1|]. exists wq. split; [|exact H3]. rewrite Ha by lia. exact H2.
Qed.

Lemma ginv_ext1 T off : ginv T off ->
  (forall w, get T off = Some w -> word_tag w = TagArrayStart -> off < word_val w) -> ginv T (off + 1).
Proof.
  intros Hi Hw p w Hp Hg. destruct (N.eq_dec p off) as [->|Hne].
  - left. apply Hw. exact Hg.
  - apply Hi; [lia|exact Hg].
Qed.

Lemma ginv_ext2 T off w0 : ginv T off -> get T off = Some w0 -> two56 <= w0 ->
  word_tag w0 <> TagArrayStart -> ginv T (off + 2).
Proof.
  intros Hi Hg0 Hb Ht p w Hp Hg.
  destruct (N.eq_dec p off) as [->|Hne].
  - left. intros E. rewrite Hg0 in Hg. injection Hg as <-. contradiction.
  - destruct (N.eq_dec p (off + 1)) as [->|Hne2].
    + right. split; [lia|]. exists w0. replace (off + 1 - 1) with off by lia. auto.
    + apply Hi; [lia|exact Hg].
Qed.

Lemma get_set_lt D p q w : q < p -> get (tape_set D p w) q = get D q.
Proof. intros H. apply get_set_ne. lia. Qed.

(* NOP runs *)
Lemma flush_nops_good : forall k T off n, n < two56 -> ginv T off ->
  ginv (fst (flush_nops k T off n)) (snd (flush_nops k T off n)).
Proof.
  induction k as [|k IH]; intros T off n Hn Hi; [exact Hi|].
  rewrite flush_nops_S. destruct (n =? 0) eqn:E; [exact Hi|].
  apply IH; [lia|].
  apply ginv_ext1.
  - eapply ginv_agree; [|exact Hi]. intros q Hq. apply get_set_lt. exact Hq.
  - intros w Hg Ht. exfalso.
    assert (Hlt : off < N.of_nat (length (tape_set T off (mk_word TagNop n)))) by (eapply get_lt; eauto).
    rewrite tape_set_length in Hlt. rewrite get_set_eq in Hg by exact Hlt. injection Hg as <-.
    rewrite word_tag_mk in Ht by exact Hn. discriminate.
Qed.

Definition gst (st : de_st) : Prop :=
  dinv st /\ N.of_nat (length (d_tape st)) < two56 /\ ginv (d_tape st) (d_off st).

Lemma do_flush_good t st st1 : d_off st < N.of_nat (length (d_tape st)) -> gst st ->
  do_flush t st = Some st1 -> gst st1 /\ d_off st1 < N.of_nat (length (d_tape st1)).
Proof.
  intros Hoff (Hd & Hl & Hi) Hf.
  destruct (do_flush_safe _ _ _ Hoff Hf) as [Hl1 Ho1].
  split; [|exact Ho1]. split; [unfold dinv; lia|]. split; [lia|].
  unfold do_flush in Hf.
  destruct ((0 <? d_skips st) && negb (t =? TagNop)) eqn:Ec.
  2:{ injection Hf as <-. exact Hi. }
  destruct (N.of_nat (length (d_tape st)) - d_off st <? d_skips st) eqn:Eb; [discriminate|].
  pose proof (flush_nops_good (N.to_nat (d_skips st)) (d_tape st) (d_off st) (d_skips st)) as Hg.
  destruct (flush_nops (N.to_nat (d_skips st)) (d_tape st) (d_off st) (d_skips st)) as [tp off'].
  cbn [fst snd] in Hg.
  destruct (off' =? N.of_nat (length (d_tape st))) eqn:Ee; [discriminate|].
  injection Hf as <-. cbn [d_tape d_off]. apply Hg; [lia|exact Hi].
Qed.

Definition gout (o : outcome de_st) : Prop :=
  match o with Ok st' => gst st' | _ => True end.

(* two words written at off, off+1 *)
Lemma gst_two st T w0 w1 : gst st -> d_off st + 1 < N.of_nat (length (d_tape st)) ->
  T = d_tape st -> two56 <= w0 -> word_tag w0 <> TagArrayStart ->
  forall st', d_tape st' = tape_set (tape_set T (d_off st) w0) (d_off st + 1) w1 ->
  d_off st' = d_off st + 2 -> gst st'.
Proof.
  intros (Hd & Hl & Hi) Hlt -> Hb Ht st' Et Eo.
  split; [unfold dinv; rewrite Et, Eo, !tape_set_length; lia|].
  split; [rewrite Et, !tape_set_length; exact Hl|].
  rewrite Et, Eo. apply (ginv_ext2 _ _ w0).
  - eapply ginv_agree; [|exact Hi]. intros q Hq. rewrite !get_set_lt by lia. reflexivity.
  - rewrite get_set_ne by lia. apply get_set_eq. lia.
  - exact Hb.
  - exact Ht.
Qed.

(* one word w written at off (other writes only at positions >= off) *)
Lemma gst_one st T' : gst st -> d_off st < N.of_nat (length (d_tape st)) ->
  length T' = length (d_tape st) ->
  (forall q, q < d_off st -> get T' q = get (d_tape st) q) ->
  (forall w, get T' (d_off st) = Some w -> word_tag w = TagArrayStart -> d_off st < word_val w) ->
  forall st', d_tape st' = T' -> d_off st' = d_off st + 1 -> gst st'.
Proof.
  intros (Hd & Hl & Hi) Hlt Hlen Hag Hw st' Et Eo.
  split; [unfold dinv; rewrite Et, Eo, Hlen; lia|].
  split; [rewrite Et, Hlen; exact Hl|].
  rewrite Et, Eo. apply ginv_ext1; [|exact Hw].
  eapply ginv_agree; [exact Hag|exact Hi].
Qed.

Lemma mk_word_ge t v : 1 <= t -> two56 <= mk_word t v.
Proof. unfold mk_word, two56. nia. Qed.

Lemma deser_loop_good : forall f tags st, gst st -> gout (deser_loop f tags st).
Proof.
  induction f as [|f IH]; intros tags st Hg; [exact I|].
  destruct tags as [|tb tr]; [exact Hg|].
  rewrite deser_loop_S. cbv zeta.
  destruct (d_off st =? N.of_nat (length (d_tape st))) eqn:Eoff; [exact I|].
  fold (do_flush (b2n tb) st).
  destruct (do_flush (b2n tb) st) as [st1|] eqn:Efl; [|exact I].
  assert (Hlt : d_off st < N.of_nat (length (d_tape st))) by (destruct Hg as (Hd & _); unfold dinv in Hd; lia).
  destruct (do_flush_good _ _ _ Hlt Hg Efl) as [Hg1 Ho1].
  destruct (do_flush_safe _ _ _ Hlt Efl) as [Hl1 _]. rewrite <- Hl1.
  clear Hg Efl Hlt Eoff Hl1.
  pose proof Hg1 as (Hd1 & Hlen1 & Hi1).
  set (t := b2n tb).
  destruct (t =? TagNop) eqn:E1.
  { apply IH. exact Hg1. }
  destruct (t =? TagString) eqn:E2.
  { destruct (d_vrem st1 <? 16) eqn:?; [exact I|].
    destruct (N.of_nat (length (d_tape st1)) <=? d_off st1 + 1) eqn:Hle; [exact I|].
    destruct (take_val st1) as [[so st2]|] eqn:Et1; [|exact I].
    destruct (take_val st2) as [[sl st3]|] eqn:Et2; [|exact I].
    destruct (take_val_tape _ _ _ Et1) as (A1 & A2 & A3).
    destruct (take_val_tape _ _ _ Et2) as (B1 & B2 & B3).
    destruct (JSONVALUEMASK <? so) eqn:Eso; [exact I|].
    apply IH. assert (Hso : so < two56) by (unfold JSONVALUEMASK, two56 in *; lia).
    apply N.eqb_eq in E2. rewrite E2. rewrite lor_mk by exact Hso.
    eapply (gst_two st1 (d_tape st3) (mk_word TagString so) sl Hg1); try reflexivity.
    - lia.
    - congruence.
    - apply mk_word_ge. unfold TagString. lia.
    - rewrite word_tag_mk by exact Hso. discriminate. }
  destruct ((t =? TagFloat) || (t =? TagInteger) || (t =? TagUint)) eqn:E3.
  { destruct (d_vrem st1 <? 8) eqn:?; [exact I|].
    destruct (N.of_nat (length (d_tape st1)) <=? d_off st1 + 1) eqn:Hle; [exact I|].
    destruct (take_val st1) as [[so st2]|] eqn:Et1; [|exact I].
    destruct (take_val_tape _ _ _ Et1) as (A1 & A2 & A3).
    apply IH.
    eapply (gst_two st1 (d_tape st2) (mk_word t 0) so Hg1); try reflexivity.
    - lia.
    - congruence.
    - apply mk_word_ge. unfold TagFloat, TagInteger, TagUint in E3. lia.
    - rewrite word_tag_mk by (unfold two56; lia).
      unfold TagFloat, TagInteger, TagUint, TagArrayStart in *. lia. }
  destruct (t =? tagFloatWithFlag) eqn:E4.
  { destruct (d_vrem st1 <? 16) eqn:?; [exact I|].
    destruct (N.of_nat (length (d_tape st1)) <=? d_off st1 + 1) eqn:Hle; [exact I|].
    destruct (take_val st1) as [[so st2]|] eqn:Et1; [|exact I].
    destruct (take_val st2) as [[sl st3]|] eqn:Et2; [|exact I].
    destruct (take_val_tape _ _ _ Et1) as (A1 & A2 & A3).
    destruct (take_val_tape _ _ _ Et2) as (B1 & B2 & B3).
    destruct (negb (so / two56 =? TagFloat)) eqn:Ef; [exact I|].
    apply IH.
    assert (Hq : so / two56 = TagFloat) by (destruct (so / two56 =? TagFloat) eqn:Q; [lia|discriminate]).
    eapply (gst_two st1 (d_tape st3) so sl Hg1); try reflexivity.
    - lia.
    - congruence.
    - pose proof (N.mul_div_le so two56 ltac:(discriminate)) as Hm. rewrite Hq in Hm.
      unfold TagFloat, two56 in *. lia.
    - unfold word_tag. rewrite Hq. discriminate. }
  destruct ((t =? TagNull) || (t =? TagBoolTrue) || (t =? TagBoolFalse) || (t =? TagEnd)) eqn:E5.
  { apply IH.
    eapply (gst_one st1 (tape_set (d_tape st1) (d_off st1) (mk_word t 0)) Hg1); try reflexivity.
    - lia.
    - apply tape_set_length.
    - intros q Hq. apply get_set_lt. exact Hq.
    - intros w Hw Ht. rewrite get_set_eq in Hw by lia. injection Hw as <-.
      rewrite word_tag_mk in Ht by (unfold two56; lia).
      unfold TagNull, TagBoolTrue, TagBoolFalse, TagEnd, TagArrayStart in *. lia. }
  destruct ((t =? TagObjectStart) || (t =? TagArrayStart)) eqn:E6.
  { destruct (take_val st1) as [[so st2]|] eqn:Et1; [|exact I].
    destruct (take_val_tape _ _ _ Et1) as (A1 & A2 & A3).
    destruct ((N.of_nat (length (d_tape st1)) <? w64 (so + d_off st1)) || (w64 (so + d_off st1) <=? d_off st1)) eqn:Ev; [exact I|].
    apply IH. set (val := w64 (so + d_off st1)) in *.
    assert (Hv : d_off st1 < val /\ val <= N.of_nat (length (d_tape st1))) by lia.
    assert (Hv56 : val < two56) by lia.
    assert (Ho56 : d_off st1 < two56) by lia.
    rewrite ?A1, ?A2.
    rewrite lor_mk by exact Hv56. rewrite lor_mk by exact Ho56.
    eapply (gst_one st1 (tape_set (tape_set (d_tape st1) (d_off st1) (mk_word t val)) (val - 1)
                           (mk_word (tagOpenToClose_ref t) (d_off st1))) Hg1); try reflexivity.
    - lia.
    - cbn [set_tape_off d_tape]. rewrite !tape_set_length. reflexivity.
    - intros q Hq. cbn [set_tape_off d_tape]. rewrite !get_set_lt by lia. reflexivity.
    - cbn [set_tape_off d_tape]. intros w Hw Ht.
      destruct (N.eq_dec (val - 1) (d_off st1)) as [Ee|Ene].
      + rewrite Ee in Hw. rewrite get_set_eq in Hw by (rewrite tape_set_length; lia). injection Hw as <-.
        rewrite word_tag_mk in Ht by exact Ho56.
        unfold tagOpenToClose_ref in Ht.
        destruct (t =? TagObjectStart); [discriminate|]. destruct (t =? TagArrayStart); [discriminate|].
        destruct (t =? TagRoot); discriminate.
      + rewrite get_set_ne in Hw by exact Ene. rewrite get_set_eq in Hw by lia. injection Hw as <-.
        rewrite word_val_mk by exact Hv56. lia. }
  destruct (t =? TagRoot) eqn:E7.
  { destruct (take_val st1) as [[so st2]|] eqn:Et1; [|exact I].
    destruct (take_val_tape _ _ _ Et1) as (A1 & A2 & A3).
    destruct (N.of_nat (length (d_tape st1)) <? w64 (so + d_off st1)) eqn:Ev; [exact I|].
    apply IH. set (val := w64 (so + d_off st1)) in *.
    assert (Hv56 : val < two56) by lia.
    rewrite ?A1, ?A2. rewrite lor_mk by exact Hv56.
    eapply (gst_one st1 (tape_set (d_tape st1) (d_off st1) (mk_word t val)) Hg1); try reflexivity.
    - lia.
    - cbn [set_tape_off d_tape]. rewrite !tape_set_length. reflexivity.
    - intros q Hq. cbn [set_tape_off d_tape]. rewrite !get_set_lt by lia. reflexivity.
    - cbn [set_tape_off d_tape]. intros w Hw Ht.
      rewrite get_set_eq in Hw by lia. injection Hw as <-.
      rewrite word_tag_mk in Ht by exact Hv56. apply N.eqb_eq in E7. rewrite E7 in Ht. discriminate. }
  destruct ((t =? TagObjectEnd) || (t =? TagArrayEnd)) eqn:E8; [|exact I].
  destruct (nth_error (d_tape st1) (N.to_nat (d_off st1))) as [w|] eqn:En; [|exact I].
  destruct (w / two56 =? t) eqn:Ew; [|exact I].
  apply IH.
  eapply (gst_one st1 (d_tape st1) Hg1); try reflexivity.
  - lia.
  - intros w' Hw' Ht. unfold get in Hw'. rewrite En in Hw'. injection Hw' as <-.
    unfold word_tag in Ht. unfold TagObjectEnd, TagArrayEnd, TagArrayStart in *. lia.
Qed.

(* ------------------------------------------------------------------ *)
(* deser_core: every word of the result is good                        *)

Theorem deser_core_good : forall init tags vals t,
  N.of_nat (length init) < two56 -> deser_core init tags vals = Ok t ->
  forall p w, get t p = Some w -> goodw t p w.
Proof.
  intros init tags vals t Hlen. unfold deser_core.
  match goal with |- context [deser_loop ?f ?tg ?s] =>
    pose proof (deser_loop_good f tg s) as H; pose proof (deser_loop_safe f tg s) as Hs;
    destruct (deser_loop f tg s) as [st| | |] end; try discriminate.
  assert (Hg : gst st).
  { apply H. split; [unfold dinv; cbn [d_off]; lia|]. split; [exact Hlen|]. intros p w Hp. cbn [d_off] in Hp. lia. }
  clear H Hs. destruct Hg as (Hd & Hl & Hi).
  destruct (0 <? d_skips st) eqn:Esk.
  - destruct (N.of_nat (length (d_tape st)) - d_off st <? d_skips st) eqn:Eb; [discriminate|].
    pose proof (flush_nops_good (N.to_nat (d_skips st)) (d_tape st) (d_off st) (d_skips st)) as Hg.
    pose proof (flush_nops_length (N.to_nat (d_skips st)) (d_tape st) (d_off st) (d_skips st)) as Hfl.
    destruct (flush_nops _ _ _ _) as [tp off]. cbn [fst snd] in Hg, Hfl.
    destruct (off =? N.of_nat (length (d_tape st))) eqn:Ee; cbn [negb]; [|discriminate].
    destruct (0 <? d_vrem st); [discriminate|].
    intros E. injection E as <-. intros p w Hp.
    apply (Hg ltac:(lia) Hi); [|exact Hp]. apply get_lt in Hp. lia.
  - destruct (d_off st =? N.of_nat (length (d_tape st))) eqn:Ee; cbn [negb]; [|discriminate].
    destruct (0 <? d_vrem st); [discriminate|].
    intros E. injection E as <-. intros p w Hp.
    apply Hi; [|exact Hp]. apply get_lt in Hp. lia.
Qed.

(* hence: in a Deserialize result no array-start word in the value slot of an
   object member points at or before itself *)
Theorem deser_core_member_arrays_forward : forall init tags vals t s m,
  N.of_nat (length init) < two56 -> deser_core init tags vals = Ok t ->
  N.of_nat (length s) < two56 -> N.of_nat (length m) < two56 ->
  member_arrays_forward {| pj_tape := t; pj_strings := s; pj_msg := m |}.
Proof.
  intros init tags vals t s m Hlen Hd Hs Hm p wl w Hwl Hw Hb Ht. cbn [pj_tape pj_strings pj_msg] in *.
  assert (Hg : get t (N.of_nat (S p)) = Some w) by (unfold get; rewrite Nat2N.id; exact Hw).
  destruct (deser_core_good _ _ _ _ Hlen Hd _ _ Hg) as [H|(_ & wq & Hq & Hq2)].
  - specialize (H Ht). lia.
  - exfalso. unfold get in Hq. replace (N.to_nat (N.of_nat (S p) - 1)) with p in Hq by lia.
    rewrite Hwl in Hq. injection Hq as <-. lia.
Qed.

(* ------------------------------------------------------------------ *)
(* deser_blob: what a DOk answer is made of                            *)

Lemma repeat_b_length b : forall n, length (repeat_b b n) = n.
Proof. induction n as [|n IH]; cbn [repeat_b length]; congruence. Qed.

Definition blk_data (b : blk) (n : N) : bytes := match b with BRaw d => d | _ => repeat_b x00 (N.to_nat n) end.

Lemma dec_block_len b dlen blk r : dec_block b dlen = (blk, r) ->
  match blk with BRaw _ | BEmpty => N.of_nat (length (blk_data blk dlen)) = dlen | _ => True end.
Proof.
  unfold dec_block.
  destruct (uvarint b) as [[size r0]|]; [|intros H; injection H as <- _; exact I].
  destruct (N.of_nat (length r0) <? size); [intros H; injection H as <- _; exact I|].
  destruct ((size =? 0) && (dlen =? 0)) eqn:E0.
  { intros H; injection H as <- _. cbn [blk_data]. rewrite repeat_b_length. lia. }
  destruct (size <? 1); [intros H; injection H as <- _; exact I|].
  destruct r0 as [|tb r1]; [intros H; injection H as <- _; exact I|].
  cbv zeta.
  destruct (b2n tb =? 0).
  - destruct (N.of_nat (length (firstn (N.to_nat (size - 1)) r1)) =? dlen) eqn:El;
      intros H; injection H as <- _; [cbn [blk_data]; lia|exact I].
  - destruct ((b2n tb =? 1) || (b2n tb =? 2)); intros H; injection H as <- _; exact I.
Qed.

Theorem deser_blob_inv src t s m : deser_blob src = DOk t s m ->
  exists n tags vals, deser_core (repeat 0 n) tags vals = Ok t /\
    N.of_nat n <= limit /\ N.of_nat (length s) <= limit /\ N.of_nat (length m) <= limit.
Proof.
  unfold deser_blob.
  destruct src as [|v r0]; [discriminate|].
  destruct (serializedVersion <? b2n v); [discriminate|].
  destruct (uvarint r0) as [[c r1]|]; [|discriminate].
  destruct ((c <? two63) && (N.of_nat (length r1) <? c)); [discriminate|].
  destruct (uvarint r1) as [[ts r2]|]; [|discriminate].
  destruct (limit <? ts) eqn:Lts; [discriminate|].
  destruct (uvarint r2) as [[ss r3]|]; [|discriminate].
  destruct (limit <? ss) eqn:Lss; [discriminate|].
  destruct (dec_block r3 ss) as [sb r4] eqn:Dsb. apply dec_block_len in Dsb.
  destruct sb as [sd| | |]; try discriminate.
  all: destruct (uvarint r4) as [[ms r5]|]; [|discriminate].
  all: destruct (limit <? ms) eqn:Lms; [discriminate|].
  all: destruct (dec_block r5 ms) as [mb r6] eqn:Dmb; apply dec_block_len in Dmb.
  all: destruct mb as [md| | |]; try discriminate.
  all: destruct (uvarint r6) as [[tgs r7]|]; [|discriminate].
  all: destruct (limit <? tgs); [discriminate|].
  all: destruct (dec_block r7 tgs) as [tb r8].
  all: destruct tb as [td| | |]; try discriminate.
  all: destruct (uvarint r8) as [[vs r9]|]; [|discriminate].
  all: destruct (limit <? vs); [discriminate|].
  all: destruct (dec_block r9 vs) as [vb r10].
  all: destruct vb as [vd| | |]; try discriminate.
  all: cbv beta iota zeta.
  all: match goal with |- context [deser_core ?a ?b ?c] => destruct (deser_core a b c) as [tp| | |] eqn:Ec; try discriminate end.
  all: intros H; injection H as <- <- <-.
  all: eexists _, _, _; split; [exact Ec|].
  all: cbn [blk_data] in *; repeat split; lia.
Qed.
