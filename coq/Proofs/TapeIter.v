(* TapeIter.v — the iterator primitives of Model/Iter.v on segment-structured
   tapes: Advance skips NOP jumps and lands on the next value / end word. *)
From SJ Require Import Model.Base Model.RefTables Spec.Json Spec.EditSpec Model.Tape
     Model.Iter Model.Walk Model.Edit.
From SJ Require Import Proofs.TapeBase Proofs.TapeSeg Proofs.TapeDen Proofs.TapePath Proofs.TapeEdit.
From Coq Require Import ZifyBool ZifyN ZifyNat.
Open Scope N_scope.

Lemma nth_error_app_exact {A} (pre : list A) x post : nth_error (pre ++ x :: post) (length pre) = Some x.
Proof. rewrite nth_error_app2 by lia. now rewrite Nat.sub_diag. Qed.

Lemma rd_app pj len off pre w post :
  pj_tape pj = pre ++ w :: post -> off = Z.of_nat (length pre) -> (off < len)%Z ->
  rd pj len off = Ok w.
Proof.
  intros Ht -> Hl. unfold rd.
  replace ((0 <=? Z.of_nat (length pre))%Z && (Z.of_nat (length pre) <? len)%Z) with true by lia.
  rewrite Nat2Z.id, Ht, nth_error_app_exact. reflexivity.
Qed.

(* ------------------------------------------------------------------ *)
(* front decomposition of item sequences                               *)

Section Front.
Variables (msg strings : bytes) (strict adj : bool).
Notation val_seg := (val_seg msg strings strict adj).
Notation items := (items msg strings strict adj).
Notation mitems := (mitems msg strings strict adj).
Notation nops_seg := (nops_seg strict).

Lemma items_front i b l : items i b l ->
  match l with
  | [] => nops_seg b
  | d :: l' => exists n v rest, b = n ++ v ++ rest /\ nops_seg n /\
                 val_seg (i + nlen n) v d /\ items (i + nlen n + nlen v) rest l'
  end.
Proof.
  induction 1 as [i|i w junk rest l Ht Hv Hrun Hr IH|i v d rest l Hv Hr IH].
  - constructor.
  - destruct l as [|d l'].
    + apply ns_cons; assumption.
    + destruct IH as (n & v & rest' & -> & Hn & Hval & Hrest).
      exists (w :: junk ++ n), v, rest'. split; [leq|]. split; [apply ns_cons; assumption|].
      split.
      * eapply val_seg_idx; [|exact Hval]. nl.
      * eapply items_idx; [|exact Hrest]. nl.
  - exists [], v, rest. split; [reflexivity|]. split; [constructor|].
    rewrite nlen_nil, N.add_0_r. split; assumption.
Qed.

Lemma mitems_front i b l : mitems i b l ->
  match l with
  | [] => nops_seg b
  | (k, d) :: l' => exists n w len n2 v rest, b = n ++ w :: len :: n2 ++ v ++ rest /\
       nops_seg n /\ word_tag w = TagString /\ string_at msg strings (word_val w) len = Some k /\
       nops_seg n2 /\ (adj = true -> n2 = []) /\
       val_seg (i + nlen n + 2 + nlen n2) v d /\
       mitems (i + nlen n + 2 + nlen n2 + nlen v) rest l'
  end.
Proof.
  induction 1 as [i|i w junk rest l Ht Hv Hrun Hr IH|i w len k n2 v d rest l Ht Hk Hn2 Hadj Hv Hr IH].
  - constructor.
  - destruct l as [|[k d] l'].
    + apply ns_cons; assumption.
    + destruct IH as (n & w' & len & n2 & v & rest' & -> & Hn & Ht' & Hk & Hn2 & Hadj & Hval & Hrest).
      exists (w :: junk ++ n), w', len, n2, v, rest'. split; [leq|].
      split; [apply ns_cons; assumption|]. repeat (split; [assumption|]). split.
      * eapply val_seg_idx; [|exact Hval]. nl.
      * eapply mitems_idx; [|exact Hrest]. nl.
  - exists [], w, len, n2, v, rest. split; [reflexivity|]. split; [constructor|].
    rewrite nlen_nil, N.add_0_r. repeat (split; [assumption|]). assumption.
Qed.

(* the step of an iterator onto a value *)
Lemma calc_next_val k w r d : val_seg k (w :: r) d ->
  calc_next false (Z.of_N k + 1) (word_val w) (word_tag w) = Z.of_nat (length r).
Proof.
  intros H. destruct (val_seg_kind _ _ _ _ _ _ _ _ H) as (Kn & Ka & Ko & K2 & K1 & Kc).
  destruct (val_seg_head _ _ _ _ _ _ _ H) as (w' & r' & E & Htag). injection E as <- <-.
  unfold calc_next. change is2 with is_numstr.
  destruct (val_tag_cases _ Htag) as [Ha|[[Ha Hn]|(Ha & Hn & Ho & Hnr)]].
  - rewrite Ka in Ha. rewrite (K1 Ha).
    assert (is_numstr (word_tag w) = false /\ is_open (word_tag w) = false) as [-> ->].
    { rewrite Kn, Ko. destruct d; try discriminate Ha; split; reflexivity. }
    reflexivity.
  - rewrite Hn. rewrite Kn in Hn. destruct (K2 Hn) as (x & ->). reflexivity.
  - rewrite Hn, Ho. rewrite Ko in Ho. rewrite (Kc Ho). nl.
Qed.

Lemma val_tag_type t : is_val_tag t = true -> TagToType_ref t <> TypeNone.
Proof.
  unfold is_val_tag. intros H.
  repeat (apply orb_true_iff in H; destruct H as [H|H]);
    apply N.eqb_eq in H; subst t; vm_compute; discriminate.
Qed.

End Front.

(* ------------------------------------------------------------------ *)
(* Advance                                                             *)

Section Advance.
Variables (strict : bool).
Notation nops_seg := (nops_seg strict).

Lemma advance_loop_skip pj i n : nops_seg n -> forall f pre X off,
  pj_tape pj = pre ++ n ++ X -> off = Z.of_nat (length pre) ->
  (off + Z.of_nat (length n) <= i_len i)%Z -> (length n < f)%nat ->
  exists f', (0 < f')%nat /\
    advance_loop f pj i off = advance_loop f' pj i (off + Z.of_nat (length n))%Z.
Proof.
  induction 1 as [|w junk rest Ht Hv Hrun Hrest IH]; intros f pre X off Htape Hoff Hlen Hf.
  - exists f. split; [cbn in Hf; lia|]. cbn [length]. f_equal. lia.
  - destruct f as [|f]; [lia|].
    cbn [length] in Hlen, Hf. rewrite app_length in Hlen, Hf.
    destruct (IH f (pre ++ w :: junk) X (off + Z.of_nat (length junk) + 1)%Z) as (f' & Hf' & E).
    + rewrite Htape. leq.
    + rewrite app_length. cbn [length]. lia.
    + lia.
    + lia.
    + exists f'. split; [exact Hf'|].
      cbn [advance_loop].
      replace (i_len i <=? off)%Z with false by lia.
      cbn [app] in Htape. rewrite <- app_assoc in Htape.
      rewrite (rd_app pj (i_len i) off pre w _ Htape Hoff) by lia.
      cbn [obind]. rewrite Ht. change (TagNop =? TagNop) with true. cbv iota.
      replace (word_val w =? 0) with false by (rewrite Hv; lia).
      rewrite Hv.
      replace (off + 1 + Z.of_N (nlen junk + 1) - 1)%Z with (off + Z.of_nat (length junk) + 1)%Z
        by (unfold nlen; lia).
      rewrite E. f_equal. cbn [length]. rewrite app_length. lia.
Qed.

(* landing on a non-NOP word *)
Definition land (i : iter) (off1 : Z) (w : N) : iter :=
  with_calc false (set_i i off1 0 (word_val w) (word_tag w)).

Lemma advance_loop_at pj i n w f pre X off :
  nops_seg n -> pj_tape pj = pre ++ n ++ w :: X -> word_tag w <> TagNop ->
  off = Z.of_nat (length pre) -> (off + Z.of_nat (length n) < i_len i)%Z -> (length n < f)%nat ->
  advance_loop f pj i off =
    let i1 := land i (off + Z.of_nat (length n) + 1) w in
    if (i_add i1 <? 0)%Z then Ok (move_to_end i1, TypeNone)
    else Ok (i1, TagToType_ref (word_tag w)).
Proof.
  intros Hn Htape Hw Hoff Hlen Hf.
  destruct (advance_loop_skip pj i n Hn f pre (w :: X) off Htape Hoff (Z.lt_le_incl _ _ Hlen) Hf) as (f' & Hf' & ->).
  destruct f' as [|f']; [lia|]. cbn [advance_loop].
  replace (i_len i <=? off + Z.of_nat (length n))%Z with false by lia.
  rewrite app_assoc in Htape.
  rewrite (rd_app pj (i_len i) _ (pre ++ n) w X Htape) by (rewrite ?app_length; lia).
  cbn [obind].
  replace (word_tag w =? TagNop) with false by (symmetry; apply N.eqb_neq; exact Hw).
  reflexivity.
Qed.

Lemma advance_at pj it n w pre X :
  nops_seg n -> pj_tape pj = pre ++ n ++ w :: X -> word_tag w <> TagNop ->
  (i_off it + i_add it)%Z = Z.of_nat (length pre) ->
  (Z.of_nat (length pre) + Z.of_nat (length n) < i_len it)%Z ->
  advance pj it =
    let i1 := land it (Z.of_nat (length pre) + Z.of_nat (length n) + 1) w in
    if (i_add i1 <? 0)%Z then Ok (move_to_end i1, TypeNone)
    else Ok (i1, TagToType_ref (word_tag w)).
Proof.
  intros Hn Htape Hw Hoff Hlen. unfold advance. rewrite Hoff.
  apply (advance_loop_at pj it n w _ pre X _ Hn Htape Hw eq_refl Hlen).
  unfold fuel_of. lia.
Qed.

(* Advance at the end of the view *)
Lemma advance_at_end pj it n pre :
  nops_seg n -> pj_tape pj = pre ++ n ->
  (i_off it + i_add it)%Z = Z.of_nat (length pre) ->
  i_len it = Z.of_nat (length pre + length n) ->
  exists it', advance pj it = Ok (it', TypeNone).
Proof.
  intros Hn Ht Hoff Hlen. unfold advance. rewrite Hoff.
  rewrite <- (app_nil_r n) in Ht.
  destruct (advance_loop_skip pj it n Hn (fuel_of it) pre [] _ Ht eq_refl) as (f' & Hf' & ->).
  { rewrite Hlen. lia. } { unfold fuel_of. rewrite Hlen. lia. }
  destruct f' as [|f']; [lia|]. cbn [advance_loop].
  replace (i_len it <=? Z.of_nat (length pre) + Z.of_nat (length n))%Z with true by lia.
  eexists. reflexivity.
Qed.

(* AdvanceInto *)
Lemma advance_into_loop_skip pj i n : nops_seg n -> forall f pre X off,
  pj_tape pj = pre ++ n ++ X -> off = Z.of_nat (length pre) ->
  (off + Z.of_nat (length n) <= i_len i)%Z -> (length n < f)%nat ->
  exists f', (0 < f')%nat /\
    advance_into_loop f pj i off = advance_into_loop f' pj i (off + Z.of_nat (length n))%Z.
Proof.
  induction 1 as [|w junk rest Ht Hv Hrun Hrest IH]; intros f pre X off Htape Hoff Hlen Hf.
  - exists f. split; [cbn in Hf; lia|]. cbn [length]. f_equal. lia.
  - destruct f as [|f]; [lia|].
    cbn [length] in Hlen, Hf. rewrite app_length in Hlen, Hf.
    destruct (IH f (pre ++ w :: junk) X (off + Z.of_nat (length junk) + 1)%Z) as (f' & Hf' & E).
    + rewrite Htape. leq.
    + rewrite app_length. cbn [length]. lia.
    + lia.
    + lia.
    + exists f'. split; [exact Hf'|].
      cbn [advance_into_loop].
      replace (i_len i <=? off)%Z with false by lia.
      cbn [app] in Htape. rewrite <- app_assoc in Htape.
      rewrite (rd_app pj (i_len i) off pre w _ Htape Hoff) by lia.
      cbn [obind]. rewrite Ht. change (TagNop =? TagNop) with true. cbv iota.
      replace (word_val w =? 0) with false by (rewrite Hv; lia).
      rewrite Hv.
      replace (off + Z.of_N (nlen junk + 1))%Z with (off + Z.of_nat (length junk) + 1)%Z
        by (unfold nlen; lia).
      rewrite E. f_equal. cbn [length]. rewrite app_length. lia.
Qed.

Lemma advance_into_at pj it n w pre X :
  nops_seg n -> pj_tape pj = pre ++ n ++ w :: X -> word_tag w <> TagNop ->
  (i_off it + i_add it)%Z = Z.of_nat (length pre) ->
  (Z.of_nat (length pre) + Z.of_nat (length n) < i_len it)%Z ->
  advance_into pj it =
    Ok (with_calc true (set_i it (Z.of_nat (length pre) + Z.of_nat (length n) + 1) 0
                              (word_val w) (word_tag w)), word_tag w).
Proof.
  intros Hn Htape Hw Hoff Hlen. unfold advance_into. rewrite Hoff.
  destruct (advance_into_loop_skip pj it n Hn (fuel_of it) pre (w :: X) _ Htape eq_refl)
    as (f' & Hf' & ->).
  { lia. } { unfold fuel_of. lia. }
  destruct f' as [|f']; [lia|]. cbn [advance_into_loop].
  replace (i_len it <=? Z.of_nat (length pre) + Z.of_nat (length n))%Z with false by lia.
  rewrite app_assoc in Htape.
  rewrite (rd_app pj (i_len it) _ (pre ++ n) w X Htape) by (rewrite ?app_length; lia).
  cbn [obind].
  replace (word_tag w =? TagNop) with false by (symmetry; apply N.eqb_neq; exact Hw).
  reflexivity.
Qed.

End Advance.

Section AdvanceVal.
Variables (msg strings : bytes) (strict adj : bool).
Notation val_seg := (val_seg msg strings strict adj).
Notation nops_seg := (nops_seg strict).

(* Advance onto a value: the resulting iterator sits on it *)
Lemma advance_value pj it n w r d pre X :
  nops_seg n -> pj_tape pj = pre ++ n ++ (w :: r) ++ X ->
  val_seg (nlen pre + nlen n) (w :: r) d ->
  (i_off it + i_add it)%Z = Z.of_nat (length pre) ->
  (Z.of_nat (length pre) + Z.of_nat (length n) + Z.of_nat (length (w :: r)) <= i_len it)%Z ->
  let it' := land it (Z.of_nat (length pre) + Z.of_nat (length n) + 1) w in
  advance pj it = Ok (it', TagToType_ref (word_tag w)) /\
  iter_on it' (nlen pre + nlen n) (w :: r) /\
  i_add it' = Z.of_nat (length r) /\ i_len it' = i_len it /\
  TagToType_ref (word_tag w) <> TypeNone.
Proof.
  intros Hn Htape Hv Hoff Hlen it'.
  destruct (val_seg_head _ _ _ _ _ _ _ Hv) as (w' & r' & E & Htag). injection E as <- <-.
  assert (Hw : word_tag w <> TagNop).
  { intros E. rewrite E in Htag. discriminate Htag. }
  assert (Hadd : i_add it' = Z.of_nat (length r)).
  { unfold it', land, with_calc, set_i. cbn [i_add i_off i_cur i_t].
    rewrite <- (calc_next_val _ _ _ _ _ _ _ _ Hv). f_equal. nl. }
  cbn [length] in Hlen. cbn [app] in Htape.
  rewrite (advance_at strict pj it n w pre (r ++ X) Hn Htape Hw Hoff) by lia.
  cbv zeta. fold it'.
  replace (i_add it' <? 0)%Z with false by lia.
  split; [reflexivity|]. split; [|split; [exact Hadd|split; [reflexivity|]]].
  - unfold iter_on, it', land, with_calc, set_i. cbn [i_off i_len i_t i_cur length].
    split; [nl|]. split; [nl|]. exists w, r. repeat split.
  - apply val_tag_type. exact Htag.
Qed.

End AdvanceVal.
