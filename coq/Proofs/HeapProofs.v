(* Proofs/HeapProofs.v -- property C16: a Clone shares no buffer with its
   source, so edits of either never show in the other; and an object whose
   string words all point into the string buffer (copy mode) does not depend
   on the message buffer at all.  Model: Model/Heap.v. *)
From Coq Require Import ZifyBool ZifyN ZifyNat.
From SJ Require Import Model.Base Model.RefTables Model.Heap.
Open Scope nat_scope.

(* ------------------------------------------------------------------ *)
(* 0. stores                                                           *)
(* ------------------------------------------------------------------ *)

Lemma upd_same {A} (f : nat -> A) (k : nat) (v : A) : upd f k v k = v.
Proof. unfold upd. rewrite Nat.eqb_refl. reflexivity. Qed.

Lemma upd_other {A} (f : nat -> A) (k j : nat) (v : A) : j <> k -> upd f k v j = f j.
Proof. unfold upd. intros H. apply Nat.eqb_neq in H. rewrite H. reflexivity. Qed.

Lemma bufs_write_same (st : store) (id : nat) (v : list N) : bufs (write_buf st id v) id = v.
Proof. apply upd_same. Qed.

Lemma bufs_write_other (st : store) (id j : nat) (v : list N) :
  j <> id -> bufs (write_buf st id v) j = bufs st j.
Proof. apply upd_other. Qed.

(* two stores that agree everywhere except on buffer i *)
Definition same_except (st st' : store) (i : nat) : Prop :=
  forall j, j <> i -> bufs st j = bufs st' j.

Lemma write_same_except (st : store) (i : nat) (v : list N) :
  same_except st (write_buf st i v) i.
Proof. intros j Hj. symmetry. apply bufs_write_other. exact Hj. Qed.

(* ------------------------------------------------------------------ *)
(* 1. well-formed and disjoint objects                                 *)
(* ------------------------------------------------------------------ *)

Definition wf (st : store) (p : pj) : Prop :=
  NoDup (ids p) /\ forall i, In i (ids p) -> i < next_id st.

Definition disj (a b : list nat) : Prop := forall i, In i a -> In i b -> False.

Lemma nodup3 (a b c : nat) : NoDup [a; b; c] <-> a <> b /\ a <> c /\ b <> c.
Proof.
  split.
  - intros H. inversion H as [|x l H1 H2]; subst. inversion H2 as [|y l' H3 H4]; subst.
    cbn [In] in *. repeat split; intros ->; tauto.
  - intros (H1 & H2 & H3). repeat constructor; cbn [In]; intuition congruence.
Qed.

Lemma wf_facts (st : store) (p : pj) :
  wf st p <->
  (msg_id p <> tape_id p /\ msg_id p <> str_id p /\ tape_id p <> str_id p) /\
  (msg_id p < next_id st /\ tape_id p < next_id st /\ str_id p < next_id st).
Proof.
  unfold wf, ids. rewrite nodup3. split.
  - intros [H1 H2]. split; [exact H1|].
    repeat split; apply H2; cbn [In]; tauto.
  - intros [H1 (Ha & Hb & Hc)]. split; [exact H1|].
    intros i [<-|[<-|[<-|[]]]]; assumption.
Qed.

Lemma disj_facts (p q : pj) :
  disj (ids p) (ids q) <->
  (msg_id p <> msg_id q /\ msg_id p <> tape_id q /\ msg_id p <> str_id q) /\
  (tape_id p <> msg_id q /\ tape_id p <> tape_id q /\ tape_id p <> str_id q) /\
  (str_id p <> msg_id q /\ str_id p <> tape_id q /\ str_id p <> str_id q).
Proof.
  unfold disj, ids. split.
  - intros H.
    assert (G : forall a b, In a [msg_id p; tape_id p; str_id p] ->
                            In b [msg_id q; tape_id q; str_id q] -> a <> b).
    { intros a b Ha Hb E. subst b. exact (H a Ha Hb). }
    repeat split; apply G; cbn [In]; tauto.
  - intros ((A1 & A2 & A3) & (B1 & B2 & B3) & (C1 & C2 & C3)) i Hi Hj.
    cbn [In] in Hi, Hj.
    destruct Hi as [<-|[<-|[<-|[]]]]; destruct Hj as [E|[E|[E|[]]]]; congruence.
Qed.

Lemma disj_sym (a b : list nat) : disj a b -> disj b a.
Proof. intros H i Hb Ha. exact (H i Ha Hb). Qed.

(* the executable checks agree with the propositions *)
Lemma existsb_eqb_In (i : nat) (l : list nat) : existsb (Nat.eqb i) l = true <-> In i l.
Proof.
  rewrite existsb_exists. split.
  - intros (x & Hx & E). apply Nat.eqb_eq in E. subst x. exact Hx.
  - intros H. exists i. split; [exact H|apply Nat.eqb_refl].
Qed.

Lemma nodup_b_iff (l : list nat) : nodup_b l = true <-> NoDup l.
Proof.
  induction l as [|x l IH]; cbn [nodup_b].
  - split; [constructor|reflexivity].
  - rewrite andb_true_iff, negb_true_iff, IH. split.
    + intros [H1 H2]. constructor; [|exact H2]. intros Hin.
      apply existsb_eqb_In in Hin. congruence.
    + intros H. inversion H as [|y l' H1 H2]; subst. split; [|exact H2].
      destruct (existsb (Nat.eqb x) l) eqn:E; [|reflexivity].
      apply existsb_eqb_In in E. contradiction.
Qed.

Lemma wf_b_iff (st : store) (p : pj) : wf_b st p = true <-> wf st p.
Proof.
  unfold wf_b, wf. rewrite andb_true_iff, nodup_b_iff, forallb_forall.
  split; intros [H1 H2]; (split; [exact H1|]); intros i Hi.
  - apply Nat.ltb_lt, H2, Hi.
  - apply Nat.ltb_lt, H2, Hi.
Qed.

Lemma disjoint_b_iff (a b : list nat) : disjoint_b a b = true <-> disj a b.
Proof.
  unfold disjoint_b, disj. rewrite forallb_forall. split.
  - intros H i Ha Hb. specialize (H i Ha). apply negb_true_iff in H.
    apply existsb_eqb_In in Hb. congruence.
  - intros H i Ha. apply negb_true_iff.
    destruct (existsb (Nat.eqb i) b) eqn:E; [|reflexivity].
    apply existsb_eqb_In in E. exfalso. exact (H i Ha E).
Qed.

(* ------------------------------------------------------------------ *)
(* 2. Clone                                                            *)
(* ------------------------------------------------------------------ *)

Lemma copy_buf_spec (st st' : store) (src r : nat) (dst : option nat) :
  copy_buf st src dst = (r, st') ->
  bufs st' r = bufs st src /\
  (forall j, j <> r -> bufs st' j = bufs st j) /\
  ((r = next_id st /\ next_id st' = S (next_id st)) \/
   (dst = Some r /\ next_id st' = next_id st)).
Proof.
  unfold copy_buf. intros H.
  assert (Halloc : alloc st (bufs st src) = (r, st') ->
          bufs st' r = bufs st src /\
          (forall j, j <> r -> bufs st' j = bufs st j) /\
          ((r = next_id st /\ next_id st' = S (next_id st)) \/
           (dst = Some r /\ next_id st' = next_id st))).
  { unfold alloc. intros E. injection E as <- <-. cbn [bufs next_id].
    split; [apply upd_same|]. split; [intros j Hj; apply upd_other; exact Hj|].
    left. split; reflexivity. }
  destruct dst as [d|]; [|exact (Halloc H)].
  destruct (length (bufs st src) <=? caps st d); [|exact (Halloc H)].
  injection H as <- <-.
  split; [apply bufs_write_same|]. split; [intros j Hj; apply bufs_write_other; exact Hj|].
  right. split; reflexivity.
Qed.

(* what Clone's destination must satisfy: a well-formed object none of whose
   buffers is a buffer of the source (nil is always fine) *)
Definition dst_ok (st : store) (src : pj) (dst : option pj) : Prop :=
  match dst with
  | None => True
  | Some d => wf st d /\ disj (ids src) (ids d)
  end.

Record clone_ok (st : store) (src : pj) (dst : option pj) (c : pj) (st' : store) : Prop := {
  co_wf_clone : wf st' c;
  co_wf_src : wf st' src;
  co_disj : disj (ids src) (ids c);
  co_copy : view c st' = view src st;
  co_src : view src st' = view src st;
  (* Clone writes nothing but the destination's buffers and new ones *)
  co_frame : forall j, j < next_id st ->
                       (forall d, dst = Some d -> ~ In j (ids d)) ->
                       bufs st' j = bufs st j
}.

(* ===== clone_disjoint (with everything else Clone guarantees) ===== *)
Theorem clone_disjoint (st st' : store) (src c : pj) (dst : option pj) :
  wf st src -> dst_ok st src dst ->
  clone st src dst = (c, st') ->
  clone_ok st src dst c st'.
Proof.
  intros Hsrc Hdst H. unfold clone in H.
  destruct (copy_buf st (tape_id src) (option_map tape_id dst)) as [t st1] eqn:E1.
  destruct (copy_buf st1 (msg_id src) (option_map msg_id dst)) as [m st2] eqn:E2.
  destruct (copy_buf st2 (str_id src) (option_map str_id dst)) as [s st3] eqn:E3.
  injection H as <- <-.
  destruct (copy_buf_spec _ _ _ _ _ E1) as (T1 & T2 & T3).
  destruct (copy_buf_spec _ _ _ _ _ E2) as (M1 & M2 & M3).
  destruct (copy_buf_spec _ _ _ _ _ E3) as (S1 & S2 & S3).
  apply wf_facts in Hsrc. destruct Hsrc as ((A1 & A2 & A3) & (A4 & A5 & A6)).
  (* where t, m, s come from, as arithmetic facts.  lia is only ever called
     with the order facts in context: disequalities make it split cases *)
  assert (Hids :
    ((t <> m /\ t <> s /\ m <> s) /\
     (t <> msg_id src /\ t <> tape_id src /\ t <> str_id src) /\
     (m <> msg_id src /\ m <> tape_id src /\ m <> str_id src) /\
     (s <> msg_id src /\ s <> tape_id src /\ s <> str_id src) /\
     (t < next_id st3 /\ m < next_id st3 /\ s < next_id st3) /\
     next_id st <= next_id st3) /\
    (forall j, j < next_id st -> (forall d, dst = Some d -> ~ In j (ids d)) ->
               j <> t /\ j <> m /\ j <> s)).
  { destruct dst as [d|]; cbn [option_map dst_ok] in *.
    - destruct Hdst as [Hd Hdj]. apply wf_facts in Hd. apply disj_facts in Hdj.
      destruct Hd as ((D1 & D2 & D3) & (D4 & D5 & D6)).
      destruct Hdj as ((J1 & J2 & J3) & (J4 & J5 & J6) & (J7 & J8 & J9)).
      assert (Hfr : forall j, (forall d0, Some d = Some d0 -> ~ In j (ids d0)) ->
                              j <> msg_id d /\ j <> tape_id d /\ j <> str_id d).
      { intros j Hj. specialize (Hj d eq_refl). unfold ids in Hj. cbn [In] in Hj.
        repeat split; intros ->; tauto. }
      destruct T3 as [[T3 T4]|[T3 T4]]; destruct M3 as [[M3 M4]|[M3 M4]];
        destruct S3 as [[S3 S4]|[S3 S4]];
        try (injection T3 as T3); try (injection M3 as M3); try (injection S3 as S3);
        (split;
         [ repeat split;
           first [ congruence
                 | clear - A4 A5 A6 D4 D5 D6 T3 T4 M3 M4 S3 S4; lia ]
         | intros j Hj Hd'; destruct (Hfr j Hd') as (F1 & F2 & F3);
           repeat split;
           first [ congruence
                 | clear - Hj T3 T4 M3 M4 S3 S4; lia ] ]).
    - destruct T3 as [[T3 T4]|[T3 _]]; [|discriminate T3].
      destruct M3 as [[M3 M4]|[M3 _]]; [|discriminate M3].
      destruct S3 as [[S3 S4]|[S3 _]]; [|discriminate S3].
      split; [repeat split; clear - A4 A5 A6 T3 T4 M3 M4 S3 S4; lia|].
      intros j Hj _. clear - Hj T3 T4 M3 M4 S3 S4. lia. }
  destruct Hids as (Hids & Hfr).
  destruct Hids as ((N1 & N2 & N3) & (P1 & P2 & P3) & (Q1 & Q2 & Q3) & (R1 & R2 & R3) &
                    (L1 & L2 & L3) & Hle).
  constructor.
  - apply wf_facts. cbn [msg_id tape_id str_id].
    repeat split; first [congruence | assumption].
  - apply wf_facts. repeat split; first [congruence | clear - A4 A5 A6 Hle; lia].
  - apply disj_facts. cbn [msg_id tape_id str_id]. repeat split; congruence.
  - unfold view. cbn [msg_id tape_id str_id].
    rewrite (S2 m) by congruence. rewrite (S2 t) by congruence. rewrite (M2 t) by congruence.
    rewrite S1, M1, T1.
    rewrite (M2 (str_id src)) by congruence. rewrite (T2 (str_id src)) by congruence.
    rewrite (T2 (msg_id src)) by congruence. reflexivity.
  - unfold view.
    rewrite !S2 by congruence. rewrite !M2 by congruence. rewrite !T2 by congruence.
    reflexivity.
  - intros j Hj Hd. destruct (Hfr j Hj Hd) as (F1 & F2 & F3).
    rewrite S2 by congruence. rewrite M2 by congruence. rewrite T2 by congruence. reflexivity.
Qed.

(* ------------------------------------------------------------------ *)
(* 3. edits touch only the object's own tape and string buffer         *)
(* ------------------------------------------------------------------ *)

Lemma edit_frame (p : pj) (e : edit) (st : store) (j : nat) :
  j <> tape_id p -> j <> str_id p -> bufs (apply_edit p e st) j = bufs st j.
Proof.
  intros H1 H2. destruct e as [i w|bs]; cbn [apply_edit]; apply bufs_write_other; assumption.
Qed.

Lemma edits_frame (p : pj) (es : list edit) (st : store) (j : nat) :
  j <> tape_id p -> j <> str_id p -> bufs (apply_edits p es st) j = bufs st j.
Proof.
  intros H1 H2. revert st. induction es as [|e es IH]; intros st; [reflexivity|].
  unfold apply_edits. cbn [fold_left]. fold (apply_edits p es (apply_edit p e st)).
  rewrite IH. apply edit_frame; assumption.
Qed.

(* no edit ever writes a message buffer *)
Lemma edits_keep_msg (p : pj) (es : list edit) (st : store) :
  NoDup (ids p) -> bufs (apply_edits p es st) (msg_id p) = bufs st (msg_id p).
Proof.
  intros H. apply nodup3 in H. destruct H as (H1 & H2 & _). apply edits_frame; assumption.
Qed.

Lemma edit_other (p q : pj) (e : edit) (st : store) :
  disj (ids p) (ids q) -> view q (apply_edit p e st) = view q st.
Proof.
  intros H. apply disj_facts in H.
  destruct H as ((J1 & J2 & J3) & (J4 & J5 & J6) & (J7 & J8 & J9)).
  unfold view. rewrite !edit_frame by congruence. reflexivity.
Qed.

Lemma edit_own (p : pj) (e : edit) (st : store) :
  NoDup (ids p) -> view p (apply_edit p e st) = edit_view e (view p st).
Proof.
  intros H. apply nodup3 in H. destruct H as (H1 & H2 & H3).
  unfold view, edit_view. destruct e as [i w|bs]; cbn [apply_edit].
  - rewrite bufs_write_same. rewrite !bufs_write_other by congruence. reflexivity.
  - rewrite bufs_write_same. rewrite !bufs_write_other by congruence. reflexivity.
Qed.

Definition edits_view (es : list edit) (v : list N * list N * list N) :=
  fold_left (fun v e => edit_view e v) es v.

Lemma edits_own (p : pj) (es : list edit) (st : store) :
  NoDup (ids p) -> view p (apply_edits p es st) = edits_view es (view p st).
Proof.
  intros H. revert st. induction es as [|e es IH]; intros st; [reflexivity|].
  unfold apply_edits, edits_view. cbn [fold_left].
  fold (apply_edits p es (apply_edit p e st)). fold (edits_view es (edit_view e (view p st))).
  rewrite IH, (edit_own p e st H). reflexivity.
Qed.

Lemma edits_other (p q : pj) (es : list edit) (st : store) :
  disj (ids p) (ids q) -> view q (apply_edits p es st) = view q st.
Proof.
  intros H. revert st. induction es as [|e es IH]; intros st; [reflexivity|].
  unfold apply_edits. cbn [fold_left]. fold (apply_edits p es (apply_edit p e st)).
  rewrite IH. apply edit_other. exact H.
Qed.

Lemma apply_mixed_cons (p q : pj) (b : bool) (e : edit) (es : list (bool * edit)) (st : store) :
  apply_mixed p q ((b, e) :: es) st = apply_mixed p q es (apply_edit (if b then p else q) e st).
Proof. reflexivity. Qed.

(* interleaved edits of two disjoint objects: each sees exactly its own *)
Theorem mixed_frame (p q : pj) (es : list (bool * edit)) (st : store) :
  NoDup (ids p) -> NoDup (ids q) -> disj (ids p) (ids q) ->
  view p (apply_mixed p q es st) = view p (apply_edits p (edits_of true es) st) /\
  view q (apply_mixed p q es st) = view q (apply_edits q (edits_of false es) st).
Proof.
  intros Hp Hq Hd. rewrite (edits_own p _ st Hp), (edits_own q _ st Hq).
  revert st. induction es as [|[b e] es IH]; intros st; [split; reflexivity|].
  rewrite apply_mixed_cons.
  destruct (IH (apply_edit (if b then p else q) e st)) as [IH1 IH2].
  rewrite IH1, IH2. unfold edits_of. cbn [filter fst].
  destruct b; cbn [Bool.eqb map snd edits_view fold_left].
  - rewrite (edit_own p e st Hp), (edit_other p q e st Hd). split; reflexivity.
  - rewrite (edit_own q e st Hq), (edit_other q p e st (disj_sym _ _ Hd)). split; reflexivity.
Qed.

(* ===== clone_frame =====
   After Clone, whatever is done to one of the two objects, the other one's
   three buffers -- hence anything computed from them -- stay what they were;
   under arbitrary interleavings each object evolves as if it were alone. *)
Theorem clone_frame (st st1 : store) (src c : pj) (dst : option pj) :
  wf st src -> dst_ok st src dst ->
  clone st src dst = (c, st1) ->
  (* at the moment of the clone *)
  view c st1 = view src st /\ view src st1 = view src st /\
  (* editing the clone does not change the source, and vice versa *)
  (forall es, view src (apply_edits c es st1) = view src st) /\
  (forall es, view c (apply_edits src es st1) = view src st) /\
  (* interleaved edits *)
  (forall es,
     view src (apply_mixed src c es st1) = view src (apply_edits src (edits_of true es) st1) /\
     view c (apply_mixed src c es st1) = view c (apply_edits c (edits_of false es) st1)).
Proof.
  intros Hsrc Hdst H.
  destruct (clone_disjoint st st1 src c dst Hsrc Hdst H) as [[Hc _] [Hs _] Hd Hcopy Hsv _].
  split; [exact Hcopy|]. split; [exact Hsv|]. split; [|split].
  - intros es. rewrite (edits_other c src es st1 (disj_sym _ _ Hd)). exact Hsv.
  - intros es. rewrite (edits_other src c es st1 Hd). exact Hcopy.
  - intros es. exact (mixed_frame src c es st1 Hs Hc Hd).
Qed.

(* for any denotation function of the three buffers *)
Corollary clone_denotation {D : Type} (den : list N * list N * list N -> D)
          (st st1 : store) (src c : pj) (dst : option pj) (es : list edit) :
  wf st src -> dst_ok st src dst ->
  clone st src dst = (c, st1) ->
  den (view c st1) = den (view src st) /\
  den (view src (apply_edits c es st1)) = den (view src st) /\
  den (view c (apply_edits src es st1)) = den (view src st).
Proof.
  intros Hsrc Hdst H.
  destruct (clone_frame st st1 src c dst Hsrc Hdst H) as (H1 & _ & H3 & H4 & _).
  rewrite H1, (H3 es), (H4 es). repeat split; reflexivity.
Qed.

(* ------------------------------------------------------------------ *)
(* 4. copy mode: independence from the message buffer                  *)
(* ------------------------------------------------------------------ *)

(* "f does not read buffer i" *)
Definition reads_not {A} (f : store -> A) (i : nat) : Prop :=
  forall st st', same_except st st' i -> f st = f st'.

(* the same, restricted to the stores satisfying P (P itself must not depend
   on buffer i for this to be meaningful; see [copy_mode_independent]) *)
Definition reads_not_on {A} (P : store -> Prop) (f : store -> A) (i : nat) : Prop :=
  forall st st', P st -> same_except st st' i -> f st = f st'.

(* generic statement: whoever does not read the message buffer is unaffected
   by arbitrary writes to it (the caller reusing or scribbling over the input
   slice after Parse) *)
Theorem reads_not_write {A} (P : store -> Prop) (f : store -> A) (i : nat) :
  reads_not_on P f i -> forall st v, P st -> f (write_buf st i v) = f st.
Proof.
  intros H st v HP. symmetry. apply (H st (write_buf st i v) HP). apply write_same_except.
Qed.

Lemma read_tape_copy (msg msg' strs : list N) :
  forall n tape, length tape <= n -> all_copy tape = true ->
                 read_tape msg strs tape = read_tape msg' strs tape.
Proof.
  induction n as [|n IH]; intros tape Hl Hc.
  - destruct tape; [reflexivity|cbn [length] in Hl; lia].
  - destruct tape as [|w rest]; [reflexivity|].
    cbn [length] in Hl. cbn [read_tape all_copy] in *.
    destruct (word_tag w =? TagString)%N.
    + apply andb_prop in Hc. destruct Hc as [Hb Hr].
      destruct rest as [|len rest']; [reflexivity|].
      cbn [length] in Hl. rewrite (IH rest') by (lia || exact Hr).
      unfold nstring_at. apply negb_true_iff in Hb. rewrite Hb. reflexivity.
    + rewrite (IH rest) by (lia || exact Hc). reflexivity.
Qed.

Definition copy_mode (p : pj) (st : store) : Prop := all_copy (bufs st (tape_id p)) = true.

(* ===== copy_mode_independent =====
   the reader of an object in copy mode does not read the message buffer *)
Theorem copy_mode_independent (p : pj) :
  NoDup (ids p) -> reads_not_on (copy_mode p) (read_pj p) (msg_id p).
Proof.
  intros Hp st st' Hc Hs. apply nodup3 in Hp. destruct Hp as (H1 & H2 & _).
  unfold read_pj, copy_mode in *.
  rewrite <- (Hs (tape_id p)) by congruence. rewrite <- (Hs (str_id p)) by congruence.
  apply (read_tape_copy _ _ _ (length (bufs st (tape_id p)))); [lia|exact Hc].
Qed.

Corollary copy_mode_overwrite (p : pj) (st : store) (v : list N) :
  NoDup (ids p) -> copy_mode p st -> read_pj p (write_buf st (msg_id p) v) = read_pj p st.
Proof.
  intros Hp Hc. exact (reads_not_write (copy_mode p) (read_pj p) (msg_id p)
                         (copy_mode_independent p Hp) st v Hc).
Qed.

(* copy mode is itself a property of the tape only, so writes to the message
   keep it *)
Lemma copy_mode_stable (p : pj) (st : store) (v : list N) :
  NoDup (ids p) -> copy_mode p st -> copy_mode p (write_buf st (msg_id p) v).
Proof.
  intros Hp Hc. apply nodup3 in Hp. destruct Hp as (H1 & _ & _).
  unfold copy_mode in *. rewrite bufs_write_other by congruence. exact Hc.
Qed.

(* SetStringBytes writes a string word that points into the string buffer *)
Lemma set_string_word_copy (off : N) :
  (off < STRINGBUFBIT)%N ->
  (word_tag (mk_word TagString STRINGBUFBIT + off) =? TagString)%N = true /\
  (N.land (word_val (mk_word TagString STRINGBUFBIT + off)) STRINGBUFBIT =? 0)%N = false.
Proof.
  intros H. unfold mk_word, word_tag, word_val, TagString, two56, STRINGBUFBIT in *.
  assert (E1 : ((34 * 72057594037927936 + 36028797018963968 + off) / 72057594037927936 = 34)%N).
  { symmetry. apply N.div_unique with (r := (36028797018963968 + off)%N); lia. }
  assert (E2 : ((34 * 72057594037927936 + 36028797018963968 + off) mod 72057594037927936
                = 36028797018963968 + off)%N).
  { symmetry. apply N.mod_unique with (q := 34%N); lia. }
  rewrite E1, E2. split; [reflexivity|].
  apply N.eqb_neq. intros E.
  apply (f_equal (fun z => N.testbit z 55)) in E.
  rewrite N.land_spec, N.bits_0, (N.testbit_eqb (36028797018963968 + off) 55) in E.
  change (2 ^ 55)%N with 36028797018963968%N in E.
  replace ((36028797018963968 + off) / 36028797018963968)%N with 1%N in E.
  2:{ apply N.div_unique with (r := off); lia. }
  vm_compute in E. discriminate E.
Qed.

(* ------------------------------------------------------------------ *)
(* 5. non-vacuity                                                      *)
(* ------------------------------------------------------------------ *)

(* message ["ab"] ; tape: root, '[', string(msg off 2, len 2), ']', root ; the
   string word points into the message (copy mode off) *)
Definition ex_msg : list N := [91; 34; 97; 98; 34; 93]%N.
Definition ex_tape_nocopy : list N :=
  [mk_word TagRoot 6; mk_word TagArrayStart 5; mk_word TagString 2; 2; mk_word TagArrayEnd 1;
   mk_word TagRoot 0]%N.
Definition ex_tape_copy : list N :=
  [mk_word TagRoot 6; mk_word TagArrayStart 5; mk_word TagString STRINGBUFBIT; 2;
   mk_word TagArrayEnd 1; mk_word TagRoot 0]%N.

Definition mk_obj (tape strs : list N) : pj * store :=
  let '(m, s1) := alloc empty_store ex_msg in
  let '(t, s2) := alloc s1 tape in
  let '(s, s3) := alloc s2 strs in
  ({| msg_id := m; tape_id := t; str_id := s |}, s3).

Definition ex_p := fst (mk_obj ex_tape_copy [97; 98]%N).
Definition ex_st := snd (mk_obj ex_tape_copy [97; 98]%N).

Example ex_wf : wf_b ex_st ex_p = true.
Proof. vm_compute. reflexivity. Qed.

(* Clone into nil: three new buffers; then SetString("xyz") on the clone *)
Definition ex_c := fst (clone ex_st ex_p None).
Definition ex_st1 := snd (clone ex_st ex_p None).
Definition ex_st2 := apply_edits ex_c (set_string ex_c 3 [120; 121; 122]%N ex_st1) ex_st1.

Example ex_clone :
  ids ex_p = [0; 1; 2] /\ ids ex_c = [4; 3; 5] /\
  disjoint_b (ids ex_p) (ids ex_c) = true /\
  view ex_c ex_st1 = view ex_p ex_st /\
  (* the clone changed ... *)
  read_pj ex_c ex_st1 <> read_pj ex_c ex_st2 /\
  nth 2 (read_pj ex_c ex_st2) (IWord 0) = IStr (Some [120; 121; 122]%N) /\
  (* ... the source did not *)
  view ex_p ex_st2 = view ex_p ex_st /\
  nth 2 (read_pj ex_p ex_st2) (IWord 0) = IStr (Some [97; 98]%N).
Proof. vm_compute. repeat split; discriminate. Qed.

(* Clone into a destination with enough capacity reuses its buffers *)
Definition ex_dst := fst (clone ex_st1 ex_p None).
Definition ex_st3 := snd (clone ex_st1 ex_p None).
Example ex_clone_reuse :
  let '(c2, st4) := clone ex_st3 ex_c (Some ex_dst) in
  ids c2 = ids ex_dst /\ next_id st4 = next_id ex_st3 /\ view c2 st4 = view ex_c ex_st3.
Proof. vm_compute. repeat split. Qed.

(* what goes wrong without the precondition: cloning onto a shallow copy of
   the source "succeeds" but the two objects are the same buffers *)
Example ex_clone_alias :
  let '(c2, st4) := clone ex_st ex_p (Some ex_p) in
  ids c2 = ids ex_p /\
  view ex_p (apply_edit c2 (ESet 0 7%N) st4) <> view ex_p st4.
Proof. vm_compute. split; [reflexivity|discriminate]. Qed.

(* copy mode: scribbling over the message changes nothing ... *)
Example ex_copy_mode :
  all_copy ex_tape_copy = true /\
  read_pj ex_p (write_buf ex_st (msg_id ex_p) [0; 0; 0; 0; 0; 0]%N) = read_pj ex_p ex_st.
Proof. vm_compute. split; reflexivity. Qed.

(* ... without copy mode it does: the hypothesis of copy_mode_independent is
   not vacuous *)
Definition ex_q := fst (mk_obj ex_tape_nocopy []).
Definition ex_qst := snd (mk_obj ex_tape_nocopy []).
Example ex_nocopy :
  all_copy ex_tape_nocopy = false /\
  nth 2 (read_pj ex_q ex_qst) (IWord 0) = IStr (Some [97; 98]%N) /\
  nth 2 (read_pj ex_q (write_buf ex_qst (msg_id ex_q) [0; 0; 0; 0; 0; 0]%N)) (IWord 0)
    = IStr (Some [0; 0]%N).
Proof. vm_compute. repeat split. Qed.

Print Assumptions clone_disjoint.
Print Assumptions mixed_frame.
Print Assumptions clone_frame.
Print Assumptions clone_denotation.
Print Assumptions reads_not_write.
Print Assumptions copy_mode_independent.
Print Assumptions copy_mode_overwrite.
Print Assumptions set_string_word_copy.
