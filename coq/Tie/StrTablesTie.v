(* Tie: the two tables of parse_string_amd64.s, as the assembler will lay them
   out (DATA lines expanded little-endian, undeclared bytes zero up to the
   GLOBL size), equal the reference tables the model uses, at the offsets the
   code's own LEA instructions address. Re-checked on every run. *)
From SJ Require Import Model.Base Model.RefTables gen.Tables.
Open Scope N_scope.

Definition asm_tab (off : N) (c : N) : N :=
  nth (N.to_nat (off + c)) gen_asm_parse_string_amd64_LCDATA1 0.

Definition all256 (p : N -> bool) : bool := forallb p (map N.of_nat (seq 0 256)).

Definition digittoval_diff : list (N * N * N) :=
  flat_map (fun i => let c := N.of_nat i in
                     if asm_tab gen_digittoval_off c =? digittoval_ref c then []
                     else [(c, asm_tab gen_digittoval_off c, digittoval_ref c)]) (seq 0 256).
Definition escape_map_diff : list (N * N * N) :=
  flat_map (fun i => let c := N.of_nat i in
                     if asm_tab gen_escape_map_off c =? escape_map_ref c then []
                     else [(c, asm_tab gen_escape_map_off c, escape_map_ref c)]) (seq 0 256).

(* printed into the build log so that a failing run shows what differs *)
Eval vm_compute in digittoval_diff.
Eval vm_compute in escape_map_diff.

Lemma tie_digittoval : digittoval_diff = [].
Proof. vm_compute. reflexivity. Qed.

Lemma tie_escape_map : escape_map_diff = [].
Proof. vm_compute. reflexivity. Qed.

(* the table bytes lie inside the symbol *)
Lemma tie_str_tables_in_bounds :
  (gen_digittoval_off + 256 <=? N.of_nat (length gen_asm_parse_string_amd64_LCDATA1)) = true /\
  (gen_escape_map_off + 256 <=? N.of_nat (length gen_asm_parse_string_amd64_LCDATA1)) = true.
Proof. vm_compute. split; reflexivity. Qed.

(* the two broadcast constants the windows are compared against *)
Lemma tie_str_broadcasts :
  forallb (fun i => nth i gen_asm_parse_string_amd64_LCDATA1 0 =? cBSLASH) (seq 0 32) = true /\
  forallb (fun i => nth i gen_asm_parse_string_amd64_LCDATA1 0 =? cQUOTE) (seq 32 32) = true.
Proof. vm_compute. split; reflexivity. Qed.
