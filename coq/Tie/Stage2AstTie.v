(* Tie: the body of unifiedMachine, TRANSLATED from /repo's current
   stage2_build_tape_amd64.go into gen/S2Prog.v on every run, has exactly the
   decision table of the hand-written model (11 updateChar sites x 256 values
   of buf[idx], the entry block and the succeed block), hence — by
   Proofs/S2AstProofs.run_ast_eq_run2 — running the translated program equals
   Model/Stage2.run2 for every message and every index-buffer sequence.
   A changed transition, a dropped or reordered tape write, a different scope
   constant, a validator call removed or added, or a statement outside the
   translator's vocabulary breaks this obligation. *)
From Coq Require Import String Lia.
From SJ Require Import Model.Base Model.RefTables Model.Stage2 Model.S2Ast Proofs.S2AstProofs gen.S2Prog.
Open Scope N_scope.

Definition all_sites_chars : list (nat * N) :=
  list_prod (seq 0 NSITES) (map N.of_nat (seq 0 256)).

Lemma tie_stage2_table :
  map (fun kc => site_dec gen_unifiedMachine (fst kc) (snd kc)) all_sites_chars =
  map (fun kc => model_dec (fst kc) (snd kc)) all_sites_chars.
Proof. vm_compute. reflexivity. Qed.

Lemma tie_stage2_entry : block_dec gen_unifiedMachine ENTRY = model_entry.
Proof. vm_compute. reflexivity. Qed.

Lemma tie_stage2_succeed : block_dec gen_unifiedMachine SUCCEED = model_succeed.
Proof. vm_compute. reflexivity. Qed.

Lemma tie_stage2_sites : gen_unifiedMachine_sites = NSITES.
Proof. reflexivity. Qed.

(* every updateChar call leaves through the succeed block when the indexes are exhausted *)
Lemma tie_stage2_ondone :
  forallb (fun b => forallb (String.eqb SUCCEED) (ondones 50 (snd b))) gen_unifiedMachine = true.
Proof. vm_compute. reflexivity. Qed.

Lemma map_eq_pointwise {A B} (f g : A -> B) l x : map f l = map g l -> In x l -> f x = g x.
Proof.
  induction l as [|a l IH]; cbn; intros H Hin; [contradiction|].
  inversion H. destruct Hin as [->|Hin]; auto.
Qed.

Lemma tie_stage2_table_pointwise k c :
  (k < NSITES)%nat -> c < 256 -> site_dec gen_unifiedMachine k c = model_dec k c.
Proof.
  intros Hk Hc.
  apply (map_eq_pointwise _ _ all_sites_chars (k, c) tie_stage2_table).
  unfold all_sites_chars. apply in_prod.
  - apply in_seq. lia.
  - apply in_map_iff. exists (N.to_nat c). split; [lia|]. apply in_seq. lia.
Qed.

Theorem stage2_translation_refines_model : forall copy msg bufs,
  run_ast gen_unifiedMachine gen_unifiedMachine_sites copy msg bufs = run2 copy msg bufs.
Proof.
  intros. rewrite tie_stage2_sites.
  apply run_ast_eq_run2; [exact tie_stage2_table_pointwise | exact tie_stage2_entry | exact tie_stage2_succeed].
Qed.
Print Assumptions stage2_translation_refines_model.
