(* Tie: constants and tables of the stage-1 assembly (both kernel families
   share the data symbols): nibble look-up tables classify exactly the six
   structural bytes and the four JSON white-space bytes; tail masks keep the
   first n bytes and pad with spaces. Re-checked on every run. *)
From SJ Require Import Model.Base Model.RefTables gen.Tables.
Open Scope N_scope.

Definition lc (off i : nat) : N := nth (off + i) gen_asm_find_whitespace_and_structurals_amd64_LCDATA1 0.

(* VPSHUFB semantics per byte: index with bit 7 set selects 0; otherwise the
   low four bits select within the 16-byte lane table *)
Definition shuf (tab_off : nat) (idx : N) : N :=
  if 128 <=? idx then 0 else lc tab_off (N.to_nat (idx mod 16)).

(* classification value of byte b as the kernel computes it:
   lowtab[b] (VPSHUFB by the byte itself) AND hightab[(b >> 4) & 0x7f] *)
Definition classify (b : N) : N :=
  N.land (shuf 0 b) (shuf 128 (N.land (b / 16) (lc 64 0))).

Definition struct_mask : N := lc 192 0.   (* 0x07 *)
Definition ws_mask : N := lc 256 0.       (* 0x18 *)

Definition class_diff : list (N * N) :=
  flat_map (fun i => let b := N.of_nat i in
     let st := negb (N.land (classify b) struct_mask =? 0) in
     let ws := negb (N.land (classify b) ws_mask =? 0) in
     if Bool.eqb st (is_markup b) && Bool.eqb ws (is_json_ws b) then [] else [(b, classify b)]) (seq 0 256).

Eval vm_compute in class_diff.

Lemma tie_stage1_classification : class_diff = [].
Proof. vm_compute. reflexivity. Qed.

(* the broadcast constants are uniform over their 32 bytes *)
Lemma tie_stage1_broadcasts :
  forallb (fun i => lc 64 i =? 127) (seq 0 64) = true /\
  forallb (fun i => lc 192 i =? 7) (seq 0 64) = true /\
  forallb (fun i => lc 256 i =? 24) (seq 0 64) = true /\
  forallb (fun i => (lc 0 i =? lc 0 (i mod 16)) && (lc 128 i =? lc 128 (i mod 16))) (seq 0 64) = true.
Proof. vm_compute. repeat split; reflexivity. Qed.

(* tail masking, both families: MASKTABLE is 31 x 0xff followed by zeros (so
   that loading 32 bytes at offset (MAX - n) keeps the first n... bytes), and
   the pad byte is a space *)
Definition masktab_ok (t : list N) : bool :=
  forallb (fun i => nth i t 0 =? (if (i <? 31)%nat then 255 else 0)) (seq 0 64).
Lemma tie_tail_masks :
  masktab_ok gen_asm_find_structural_bits_amd64_MASKTABLE = true /\
  forallb (fun b => b =? 32) gen_asm_find_structural_bits_amd64_WHITESPACE = true /\
  length gen_asm_find_structural_bits_amd64_WHITESPACE = 8%nat.
Proof. vm_compute. repeat split; reflexivity. Qed.

(* both families use the same tail mask table and pad byte *)
Lemma tie_tail_masks_avx512 :
  gen_asm_find_structural_bits_avx512_amd64_MASKTABLE = gen_asm_find_structural_bits_amd64_MASKTABLE /\
  gen_asm_find_structural_bits_avx512_amd64_WHITESPACE = gen_asm_find_structural_bits_amd64_WHITESPACE.
Proof. vm_compute. split; reflexivity. Qed.

(* backslash / quote broadcasts and the control-character test:
   signed(0xa0) > signed(b xor 0x80)  <->  b < 0x20 *)
Definition s8 (x : N) : Z := if x <? 128 then Z.of_N x else (Z.of_N x - 256)%Z.
Lemma tie_quote_kernel_consts :
  forallb (fun b => b =? cBSLASH) gen_asm_find_odd_backslash_sequences_amd64_LCDATA1 = true /\
  forallb (fun i => nth i gen_asm_find_quote_mask_and_bits_amd64_LCDATA1 0 =? cQUOTE) (seq 0 64) = true /\
  forallb (fun i => nth i gen_asm_find_quote_mask_and_bits_amd64_LCDATA1 0 =? 128) (seq 64 64) = true /\
  forallb (fun i => nth i gen_asm_find_quote_mask_and_bits_amd64_LCDATA1 0 =? 160) (seq 128 64) = true /\
  forallb (fun i => let b := N.of_nat i in
                    Bool.eqb (s8 (N.lxor b 128) <? s8 160)%Z (b <? 32)) (seq 0 256) = true.
Proof. vm_compute. repeat split; reflexivity. Qed.
