(* Tie: the Go lookup tables and package-level constants of the running
   package (dumped from the binary built from /repo's current tree) equal the
   reference definitions of the model. Re-checked on every run. *)
From SJ Require Import Model.Base Model.RefTables gen.Tables gen.Consts.
Open Scope N_scope.

Definition tab_diff (g : list N) (ref : N -> N) (n : nat) : list (N * N * N) :=
  flat_map (fun i => let c := N.of_nat i in
                     if nth i g 0 =? ref c then [] else [(c, nth i g 0, ref c)]) (seq 0 n).

Eval vm_compute in tab_diff gen_isNumberRune isNumberRune_ref 256.
Eval vm_compute in tab_diff gen_structuralOrWhitespaceNegated follow_ref 256.

Lemma tie_isNumberRune : tab_diff gen_isNumberRune isNumberRune_ref 256 = [] /\ length gen_isNumberRune = 256%nat.
Proof. vm_compute. split; reflexivity. Qed.
Lemma tie_follow : tab_diff gen_structuralOrWhitespaceNegated follow_ref 256 = [] /\ length gen_structuralOrWhitespaceNegated = 256%nat.
Proof. vm_compute. split; reflexivity. Qed.
Lemma tie_jsonMarkup : tab_diff gen_jsonMarkupTable jsonMarkup_ref 256 = [].
Proof. vm_compute. reflexivity. Qed.
Lemma tie_TagToType : tab_diff gen_TagToType TagToType_ref 256 = [].
Proof. vm_compute. reflexivity. Qed.
Lemma tie_tagOpenToClose : tab_diff gen_tagOpenToClose tagOpenToClose_ref 256 = [].
Proof. vm_compute. reflexivity. Qed.
Lemma tie_shouldEscape : tab_diff gen_shouldEscape shouldEscape_ref 256 = [].
Proof. vm_compute. reflexivity. Qed.
Lemma tie_valToHex : tab_diff gen_valToHex valToHex_ref 16 = [].
Proof. vm_compute. reflexivity. Qed.

Lemma tie_number_flags :
  gen_isPartOfNumberFlag = fPART /\ gen_isFloatOnlyFlag = fFLOATONLY /\ gen_isMinusFlag = fMINUS /\
  gen_isEOVFlag = fEOV /\ gen_isDigitFlag = fDIGIT /\ gen_isMustHaveDigitNext = fMUSTDIGIT /\
  gen_maxIntLen = maxIntLen /\ gen_FloatOverflowedInteger = FloatOverflowedInteger.
Proof. vm_compute. repeat split; reflexivity. Qed.

Lemma tie_tags :
  gen_TagString = TagString /\ gen_TagInteger = TagInteger /\ gen_TagUint = TagUint /\ gen_TagFloat = TagFloat /\
  gen_TagNull = TagNull /\ gen_TagBoolTrue = TagBoolTrue /\ gen_TagBoolFalse = TagBoolFalse /\
  gen_TagObjectStart = TagObjectStart /\ gen_TagObjectEnd = TagObjectEnd /\ gen_TagArrayStart = TagArrayStart /\
  gen_TagArrayEnd = TagArrayEnd /\ gen_TagRoot = TagRoot /\ gen_TagNop = TagNop /\ gen_TagEnd = TagEnd /\
  gen_tagFloatWithFlag = tagFloatWithFlag.
Proof. vm_compute. repeat split; reflexivity. Qed.

Lemma tie_word_layout :
  gen_JSONTAGOFFSET = JSONTAGOFFSET /\ gen_JSONVALUEMASK = JSONVALUEMASK /\ gen_STRINGBUFBIT = STRINGBUFBIT /\
  gen_STRINGBUFMASK = STRINGBUFMASK /\ two56 = 2 ^ gen_JSONTAGOFFSET /\
  gen_JSONTAGMASK = 255 * two56 /\ gen_STRINGBUFBIT < two56 /\ gen_STRINGBUFMASK + 1 = gen_STRINGBUFBIT.
Proof. vm_compute. repeat split; reflexivity. Qed.

Lemma tie_stage2_consts :
  gen_retAddressShift = retAddressShift /\ gen_retAddressStartConst = retStart /\
  gen_retAddressObjectConst = retObject /\ gen_retAddressArrayConst = retArray /\
  gen_addOneForRoot = 1 /\ 2 ^ gen_retAddressShift = 4.
Proof. vm_compute. repeat split; reflexivity. Qed.

(* tag bytes pairwise distinct (the serializer's extra tag included) *)
Lemma tie_tags_distinct :
  NoDup [gen_TagString; gen_TagInteger; gen_TagUint; gen_TagFloat; gen_TagNull; gen_TagBoolTrue; gen_TagBoolFalse;
         gen_TagObjectStart; gen_TagObjectEnd; gen_TagArrayStart; gen_TagArrayEnd; gen_TagRoot; gen_TagNop; gen_TagEnd;
         gen_tagFloatWithFlag].
Proof.
  vm_compute.
  repeat (constructor; [ simpl; intuition discriminate | ]). constructor.
Qed.
