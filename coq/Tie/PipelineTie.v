(* Tie: ring size, channel capacity, buffer sizes and the sync/async threshold
   as the source currently declares them satisfy the side conditions the
   pipeline theorems need. Re-checked on every run. *)
From SJ Require Import Model.Base Model.RefTables gen.Consts.
From Coq Require Import ZifyN.
Open Scope N_scope.

Definition S_gen : nat := N.to_nat gen_indexSlots.
Definition CAP_gen : nat := N.to_nat gen_chanCapExpr.

(* make(chan indexChan, <expr>) in the source and cap() of the live channel agree *)
Lemma tie_chan_cap_consistent : gen_chanCapExpr = gen_chanCapRuntime.
Proof. vm_compute. reflexivity. Qed.

(* ring safety (C07): capacity + consumer's buffer + producer's buffer <= slots *)
Lemma tie_ring_safe_cond : (CAP_gen + 2 <= S_gen)%nat.
Proof. vm_compute. repeat constructor. Qed.
Lemma tie_cap_positive : (1 <= CAP_gen)%nat.
Proof. vm_compute. repeat constructor. Qed.

(* no write past a slot (C05): the kernel stops filling at T entries, then at
   most one more block and the padded tail add <= 64 entries each *)
Lemma tie_slot_bounds :
  (gen_indexSizeWithSafetyBuffer + 128 <=? gen_indexSize) = true /\
  ((gen_indexSizeWithSafetyBuffer - 1) + 64 + 64 <? gen_indexSize) = true.
Proof. vm_compute. split; reflexivity. Qed.

(* the sequential path (<= THR bytes) never blocks: every non-final buffer
   holds >= T entries, each structural consumes >= 1 byte, so at most
   THR / T non-final buffers, plus the final one and the terminator *)
Lemma tie_sync_no_block :
  (gen_syncThreshold / gen_indexSizeWithSafetyBuffer + 2 <=? gen_chanCapExpr) = true.
Proof. vm_compute. reflexivity. Qed.

Lemma tie_model_consts :
  gen_indexSlots = indexSlots /\ gen_indexSize = indexSize /\
  gen_indexSizeWithSafetyBuffer = indexSizeWithSafetyBuffer /\ gen_chanCapExpr = chanCap /\
  gen_syncThreshold = syncThreshold.
Proof. vm_compute. repeat split; reflexivity. Qed.

(* both kernel families are handed the same fill limit, the declared one *)
Lemma tie_slice_limits :
  gen_sliceLimitAVX2 = gen_indexSizeWithSafetyBuffer /\ gen_sliceLimitAVX512 = gen_indexSizeWithSafetyBuffer.
Proof. vm_compute. split; reflexivity. Qed.
