(* Tie: serializer constants and float-format thresholds from the source. *)
From SJ Require Import Model.Base Model.RefTables Spec.Json Model.Serialize Model.FloatFmt gen.Consts gen.Tables.
Open Scope N_scope.

Lemma tie_serializer_consts :
  2 ^ gen_stringBits = stringSize /\ gen_serializedVersion = serializedVersion /\
  gen_blockTypeUncompressed = 0 /\ gen_blockTypeS2 = 1 /\ gen_blockTypeZstd = 2 /\
  (0 <? gen_tagBufSize) = true /\ (0 <? gen_valBufSize) = true /\ gen_tagFloatWithFlag = tagFloatWithFlag.
Proof. vm_compute. repeat split; reflexivity. Qed.

(* the ES6 thresholds written in appendFloat, rounded to float64, are the bit
   patterns the model compares against *)
Lemma tie_es6_thresholds :
  gen_es6_nlits = 2 /\
  gen_es6_lit0_num = 1%Z /\ gen_es6_lit0_den = (10 ^ 6)%Z /\
  gen_es6_lit1_num = (10 ^ 21)%Z /\ gen_es6_lit1_den = 1%Z /\
  bits_of_sf (dec_to_float false 1 (-6)) = bits_1em6 /\
  bits_of_sf (dec_to_float false 1 21) = bits_1e21.
Proof. vm_compute. repeat split; reflexivity. Qed.

Lemma tie_stream_chunk : gen_tmpSize = 10485760.
Proof. vm_compute. reflexivity. Qed.
